package main

import (
	"fmt"
	"go/token"
	"go/types"
	"math"

	"golang.org/x/tools/go/ssa"
)

func f64bits(f float64) uint64 { return math.Float64bits(f) }
func f32bits(f float32) uint32 { return math.Float32bits(f) }

func (th *Thread) unop(instr *ssa.UnOp, x Value) Value {
	m := th.m
	ts := m.ts
	switch instr.Op {
	case token.MUL: // load
		p, ok := x.(*Value)
		if !ok {
			if up, isU := x.(UnsafePtr); isU {
				_ = up
			}
			m.unsupported(fmt.Sprintf("load through %T", x))
		}
		if p == nil {
			th.rtPanic("invalid memory address or nil pointer dereference")
		}
		th.onRead(p)
		return load(p)
	case token.ARROW:
		v, ok := th.chanRecv(x.(*Chan))
		if instr.CommaOk {
			return Tuple{v, ts.Bool(ok)}
		}
		return v
	case token.NOT:
		return ts.Not(x.(*Term))
	case token.SUB:
		t := x.(*Term)
		k, _ := scalarOf(instr.X.Type())
		if k.float {
			return ts.FNeg(t)
		}
		return ts.Neg(t)
	case token.XOR:
		return ts.BNot(x.(*Term))
	}
	m.unsupported("unop " + instr.Op.String())
	return nil
}

func (th *Thread) binop(op token.Token, T types.Type, x, y Value) Value {
	m := th.m
	ts := m.ts
	// comparisons on non-scalars
	if op == token.EQL || op == token.NEQ {
		var eq *Term
		_, xs := x.(*Term)
		if xs {
			k, _ := scalarOf(T)
			if k.float {
				eq = ts.FCmp(OpFEq, x.(*Term), y.(*Term))
			} else {
				eq = ts.Eq(x.(*Term), y.(*Term))
			}
		} else {
			eq = th.eqGeneral(T, x, y)
		}
		if op == token.NEQ {
			return ts.Not(eq)
		}
		return eq
	}
	if xs, ok := x.(Str); ok {
		ys := y.(Str)
		switch op {
		case token.ADD:
			return th.strConcat(xs, ys)
		case token.LSS:
			return th.strLess(xs, ys)
		case token.GTR:
			return th.strLess(ys, xs)
		case token.LEQ:
			return ts.Not(th.strLess(ys, xs))
		case token.GEQ:
			return ts.Not(th.strLess(xs, ys))
		}
		m.unsupported("string binop " + op.String())
	}
	a, ok1 := x.(*Term)
	b, ok2 := y.(*Term)
	if !ok1 || !ok2 {
		m.unsupported(fmt.Sprintf("binop %s on %T,%T", op, x, y))
	}
	k, ok := scalarOf(T)
	if !ok {
		m.unsupported("binop on type " + T.String())
	}
	if k.w == 0 {
		switch op {
		case token.LAND, token.AND:
			return ts.And(a, b)
		case token.LOR, token.OR:
			return ts.Or(a, b)
		}
		m.unsupported("bool binop " + op.String())
	}
	if k.float {
		switch op {
		case token.ADD:
			return ts.FBin(OpFAdd, a, b)
		case token.SUB:
			return ts.FBin(OpFSub, a, b)
		case token.MUL:
			return ts.FBin(OpFMul, a, b)
		case token.QUO:
			return ts.FBin(OpFDiv, a, b)
		case token.LSS:
			return ts.FCmp(OpFLt, a, b)
		case token.LEQ:
			return ts.FCmp(OpFLe, a, b)
		case token.GTR:
			return ts.FCmp(OpFLt, b, a)
		case token.GEQ:
			return ts.FCmp(OpFLe, b, a)
		}
		m.unsupported("float binop " + op.String())
	}
	switch op {
	case token.ADD:
		return ts.Bin(OpAdd, a, b)
	case token.SUB:
		return ts.Bin(OpSub, a, b)
	case token.MUL:
		return ts.Bin(OpMul, a, b)
	case token.QUO, token.REM:
		if !b.IsConst() {
			if m.decide(ts.Eq(b, ts.Const(b.W, 0))) {
				th.rtPanic("integer divide by zero")
			}
		} else if b.Val == 0 {
			th.rtPanic("integer divide by zero")
		}
		if k.signed {
			if m.divSplit > 0 && b.IsConst() && !a.IsConst() {
				if q, r, ok := m.splitConstDiv(a, b); ok {
					if op == token.QUO {
						return q
					}
					return r
				}
			}
			if op == token.QUO {
				return ts.Bin(OpSDiv, a, b)
			}
			return ts.Bin(OpSRem, a, b)
		}
		if op == token.QUO {
			return ts.Bin(OpUDiv, a, b)
		}
		return ts.Bin(OpURem, a, b)
	case token.AND:
		return ts.Bin(OpBAnd, a, b)
	case token.OR:
		return ts.Bin(OpBOr, a, b)
	case token.XOR:
		return ts.Bin(OpBXor, a, b)
	case token.AND_NOT:
		return ts.Bin(OpBAnd, a, ts.BNot(b))
	case token.SHL, token.SHR:
		// shift count may have another width / signedness
		cnt := b
		if cnt.W < a.W {
			cnt = ts.ZExt(cnt, a.W)
		} else if cnt.W > a.W {
			// counts >= width give 0 / sign fill; clamp
			big := ts.Cmp(OpULe, ts.Const(cnt.W, uint64(a.W)), cnt)
			cnt = ts.Ite(big, ts.Const(a.W, uint64(a.W)), ts.Extract(cnt, a.W-1, 0))
		}
		if op == token.SHL {
			return ts.Bin(OpShl, a, cnt)
		}
		if k.signed {
			return ts.Bin(OpAShr, a, cnt)
		}
		return ts.Bin(OpLShr, a, cnt)
	case token.LSS:
		if k.signed {
			return ts.Cmp(OpSLt, a, b)
		}
		return ts.Cmp(OpULt, a, b)
	case token.LEQ:
		if k.signed {
			return ts.Cmp(OpSLe, a, b)
		}
		return ts.Cmp(OpULe, a, b)
	case token.GTR:
		if k.signed {
			return ts.Cmp(OpSLt, b, a)
		}
		return ts.Cmp(OpULt, b, a)
	case token.GEQ:
		if k.signed {
			return ts.Cmp(OpSLe, b, a)
		}
		return ts.Cmp(OpULe, b, a)
	}
	m.unsupported("int binop " + op.String())
	return nil
}

// eqGeneral handles == on non-scalar operand types.
func (th *Thread) eqGeneral(T types.Type, x, y Value) *Term {
	m := th.m
	switch xv := x.(type) {
	case Slice:
		// comparison with nil only
		ys, _ := y.(Slice)
		if xv == nil || ys == nil {
			return m.ts.Bool(xv == nil && ys == nil)
		}
		m.unsupported("slice == slice")
	case *Closure:
		yc, _ := y.(*Closure)
		return m.ts.Bool(xv == nil && yc == nil || (xv != nil && yc != nil && xv == yc))
	case Struct:
		st := T.Underlying().(*types.Struct)
		ys := y.(Struct)
		r := m.ts.Bool(true)
		for i := range xv {
			r = m.ts.And(r, th.eqTyped(st.Field(i).Type(), xv[i], ys[i]))
		}
		return r
	case Array:
		at := T.Underlying().(*types.Array)
		ys := y.(Array)
		r := m.ts.Bool(true)
		for i := range xv {
			r = m.ts.And(r, th.eqTyped(at.Elem(), xv[i], ys[i]))
		}
		return r
	case Iface:
		yi := y.(Iface)
		if xv.T == nil || yi.T == nil {
			return m.ts.Bool(xv.T == nil && yi.T == nil)
		}
		if !types.Identical(xv.T, yi.T) {
			return m.ts.Bool(false)
		}
		return th.eqTyped(xv.T, xv.V, yi.V)
	}
	return th.equal(x, y)
}

func (th *Thread) eqTyped(T types.Type, x, y Value) *Term {
	if xt, ok := x.(*Term); ok {
		k, _ := scalarOf(T)
		if k.float {
			return th.m.ts.FCmp(OpFEq, xt, y.(*Term))
		}
		return th.m.ts.Eq(xt, y.(*Term))
	}
	return th.eqGeneral(T, x, y)
}

func (th *Thread) strConcat(a, b Str) Value {
	m := th.m
	if a.Opaque != nil || b.Opaque != nil {
		la, lb := th.strLenTerm(a), th.strLenTerm(b)
		o := &OpaqueStr{Len: m.ts.Bin(OpAdd, la, lb)}
		add := func(s Str) {
			if s.Opaque != nil {
				for _, sg := range s.Opaque.Segs {
					if sg.ID == "" && len(o.Segs) > 0 && o.Segs[len(o.Segs)-1].ID == "" {
						last := &o.Segs[len(o.Segs)-1]
						last.Bytes = append(append([]*Term{}, last.Bytes...), sg.Bytes...)
						continue
					}
					o.Segs = append(o.Segs, sg)
				}
			} else if s.Len() > 0 {
				bs := m.strBytes(s)
				if len(o.Segs) > 0 && o.Segs[len(o.Segs)-1].ID == "" {
					last := &o.Segs[len(o.Segs)-1]
					last.Bytes = append(append([]*Term{}, last.Bytes...), bs...)
				} else {
					o.Segs = append(o.Segs, Seg{Bytes: bs})
				}
			}
		}
		add(a)
		add(b)
		return Str{Opaque: o}
	}
	if a.IsConcrete() && b.IsConcrete() {
		return Str{C: a.C + b.C}
	}
	if a.Len() == 0 {
		return b
	}
	if b.Len() == 0 {
		return a
	}
	return mkStr(append(append([]*Term{}, m.strBytes(a)...), m.strBytes(b)...))
}

// ropeEq decides equality of two strings of which at least one is opaque, under
// the token assumption: a rendering token is never split across, nor produced by,
// the literal text around it (the delimiter grammar parses uniquely).  Aligned
// segment lists compare piecewise (tokens through their uninterpreted token
// terms); misaligned lists are unequal.  Blobs compare only with themselves.
func (th *Thread) ropeEq(a, b Str) *Term {
	m := th.m
	segs := func(s Str) []Seg {
		if s.Opaque != nil {
			return s.Opaque.Segs
		}
		if s.Len() == 0 {
			return nil
		}
		return []Seg{{Bytes: m.strBytes(s)}}
	}
	sa, sb := segs(a), segs(b)
	if len(sa) != len(sb) {
		return m.ts.Bool(false)
	}
	r := m.ts.Bool(true)
	for i := range sa {
		if r.IsFalse() {
			return r
		}
		x, y := sa[i], sb[i]
		switch {
		case x.ID == "" && y.ID == "":
			if len(x.Bytes) != len(y.Bytes) {
				return m.ts.Bool(false)
			}
			for k := range x.Bytes {
				r = m.ts.And(r, m.ts.Eq(x.Bytes[k], y.Bytes[k]))
			}
		case x.ID == "" || y.ID == "":
			if x.Tok == nil && y.Tok == nil {
				m.res.Assumes = appendUniq(m.res.Assumes, "opaque strings (symbolic length, abstract content) differ from each other and from every literal")
			}
			return m.ts.Bool(false)
		case x.ID == y.ID:
		case x.Tok != nil && y.Tok != nil:
			r = m.ts.And(r, m.ts.Eq(x.Tok, y.Tok))
		default:
			m.res.Assumes = appendUniq(m.res.Assumes, "opaque strings (symbolic length, abstract content) differ from each other and from every literal")
			return m.ts.Bool(false)
		}
	}
	return r
}

func (m *Machine) strDesc(s Str) string {
	if s.IsConcrete() {
		return s.C
	}
	return fmt.Sprintf("sym%d", s.Len())
}

func (th *Thread) strLenTerm(s Str) *Term {
	if s.Opaque != nil {
		return s.Opaque.Len
	}
	return th.m.ts.Const(64, uint64(s.Len()))
}

// strLess: lexicographic a < b.
func (th *Thread) strLess(a, b Str) *Term {
	m := th.m
	ts := m.ts
	if a.IsConcrete() && b.IsConcrete() {
		return ts.Bool(a.C < b.C)
	}
	ab, bb := m.strBytes(a), m.strBytes(b)
	n := len(ab)
	if len(bb) < n {
		n = len(bb)
	}
	// result when common prefix equal
	res := ts.Bool(len(ab) < len(bb))
	for i := n - 1; i >= 0; i-- {
		res = ts.Ite(ts.Eq(ab[i], bb[i]), res, ts.Cmp(OpULt, ab[i], bb[i]))
	}
	return res
}

// conv implements ssa.Convert.
func (th *Thread) conv(dst, src types.Type, x Value) Value {
	m := th.m
	ts := m.ts
	ud, us := dst.Underlying(), src.Underlying()
	// unsafe.Pointer conversions
	if b, ok := ud.(*types.Basic); ok && b.Kind() == types.UnsafePointer {
		switch xv := x.(type) {
		case *Value:
			return UnsafePtr{P: xv, T: deref(src)}
		case UnsafePtr:
			return xv
		case *Term:
			m.unsupported("uintptr -> unsafe.Pointer")
		}
	}
	if b, ok := us.(*types.Basic); ok && b.Kind() == types.UnsafePointer {
		up := x.(UnsafePtr)
		if pd, ok := ud.(*types.Pointer); ok {
			// *[]byte -> *string : view of the slice contents as a string
			if up.P == nil {
				return (*Value)(nil)
			}
			if types.Identical(pd.Elem().Underlying(), up.T.Underlying()) {
				return up.P
			}
			if isString(pd.Elem()) {
				if sl, ok := (*up.P).(Slice); ok {
					bs := make([]*Term, len(sl))
					for i := range sl {
						bs[i] = sl[i].(*Term)
					}
					cell := new(Value)
					*cell = mkStr(bs)
					return cell
				}
			}
			m.unsupported(fmt.Sprintf("unsafe pointer cast %v -> %v", up.T, pd))
		}
		m.unsupported("unsafe.Pointer -> " + dst.String())
	}
	switch xv := x.(type) {
	case OBytes:
		if isString(ud) {
			return xv.S
		}
		return xv
	case Str:
		if isString(ud) {
			return xv
		}
		if sl, ok := ud.(*types.Slice); ok {
			if k, _ := scalarOf(sl.Elem()); k.w == 8 {
				if xv.Opaque != nil {
					return OBytes{xv}
				}
				bs := m.strBytes(xv)
				// the runtime rounds the allocation up to a size class: the slice has spare
				// capacity a later append writes into (shared by every holder of the array)
				out := make(Slice, len(bs), roundupsize(len(bs)))
				for i, b := range bs {
					out[i] = b
				}
				return out
			}
			// []rune
			if xv.IsConcrete() {
				rs := []rune(xv.C)
				out := make(Slice, len(rs))
				for i, r := range rs {
					out[i] = ts.Const(32, uint64(uint32(r)))
				}
				return out
			}
		}
		m.unsupported("string conversion to " + dst.String())
	case Slice:
		if isString(ud) {
			el := us.(*types.Slice).Elem()
			if k, _ := scalarOf(el); k.w == 8 {
				bs := make([]*Term, len(xv))
				for i := range xv {
					bs[i] = xv[i].(*Term)
				}
				return mkStr(bs)
			}
			// []rune -> string (concrete only)
			var rs []rune
			for _, r := range xv {
				t := r.(*Term)
				if !t.IsConst() {
					m.unsupported("[]rune(symbolic) -> string")
				}
				rs = append(rs, rune(t.Signed()))
			}
			return Str{C: string(rs)}
		}
		return xv
	case *Term:
		if isString(ud) {
			// string(rune)
			if !xv.IsConst() {
				m.unsupported("string(symbolic rune)")
			}
			return Str{C: string(rune(xv.Signed()))}
		}
		kd, okd := scalarOf(dst)
		ks, oks := scalarOf(src)
		if !okd || !oks {
			m.unsupported(fmt.Sprintf("conversion %v -> %v", src, dst))
		}
		switch {
		case ks.float && kd.float:
			return ts.F2F(xv, kd.w)
		case ks.float:
			return ts.F2I(xv, kd.signed, kd.w)
		case kd.float:
			return ts.I2F(xv, ks.signed, kd.w)
		default:
			if kd.w <= ks.w {
				return ts.Extract(xv, kd.w-1, 0)
			}
			if ks.signed {
				return ts.SExt(xv, kd.w)
			}
			return ts.ZExt(xv, kd.w)
		}
	case *Value, *Map, *Chan, Iface, *Closure, Struct, Array, UnsafePtr:
		return x
	}
	m.unsupported(fmt.Sprintf("conversion of %T from %v to %v", x, src, dst))
	return nil
}

// splitConstDiv replaces a signed division of a symbolic dividend by a positive constant
// with a case split on the quotient (harness opt-in, verifrt.SplitConstDivision(n)):
// the path forks on q in (-n, n), each side carrying only the two comparisons
// q*c <= a < (q+1)*c (truncated division: mirrored for negative a), so the solver never
// sees a 64-bit divider.  A dividend outside the 2n-1 cases keeps the ordinary bvsdiv/bvsrem
// term (on a path whose condition excludes the cases).
func (m *Machine) splitConstDiv(a, b *Term) (q, r *Term, ok bool) {
	ts := m.ts
	w := a.W
	sx := func(v uint64) int64 {
		if w < 64 {
			v &= (1 << uint(w)) - 1
			if v>>(uint(w)-1) == 1 {
				return int64(v) - (1 << uint(w))
			}
		}
		return int64(v)
	}
	c := sx(b.Val)
	n := int64(m.divSplit)
	if c <= 1 || w < 8 {
		return nil, nil, false
	}
	// the case bounds must themselves be representable
	lim := int64(1)<<uint(w-1) - 1
	if c > lim/(n+1) {
		return nil, nil, false
	}
	k := func(v int64) *Term { return ts.Const(w, uint64(v)) }
	if res, hit := m.divMemo[a]; hit && res.c == c {
		return res.q, res.r, true
	}
	done := func(q, r *Term) (*Term, *Term, bool) {
		if m.divMemo == nil {
			m.divMemo = map[*Term]divRes{}
		}
		m.divMemo[a] = divRes{c, q, r}
		return q, r, true
	}
	for i := int64(0); i < n; i++ {
		in := ts.And(ts.Cmp(OpSLe, k(i*c), a), ts.Cmp(OpSLt, a, k((i+1)*c)))
		if m.decide(in) {
			return done(k(i), ts.Bin(OpSub, a, k(i*c)))
		}
	}
	for i := int64(0); i < n; i++ {
		// -(i+1)c < a <= -i*c  (a < 0): quotient -i, remainder a + i*c
		in := ts.And(ts.Cmp(OpSLt, k(-(i+1)*c), a), ts.Cmp(OpSLe, a, k(-i*c)))
		if m.decide(in) {
			return done(k(-i), ts.Bin(OpAdd, a, k(i*c)))
		}
	}
	// outside the cases: the plain division term under a path condition that excludes them
	return nil, nil, false
}

type divRes struct {
	c    int64
	q, r *Term
}

// roundupsize: malloc size classes of the Go runtime for small byte allocations (what
// stringtoslicebyte and growslice round a []byte capacity up to).
func roundupsize(n int) int {
	classes := []int{0, 8, 16, 24, 32, 48, 64, 80, 96, 112, 128, 144, 160, 176, 192, 208, 224, 240, 256,
		288, 320, 352, 384, 416, 448, 480, 512, 576, 640, 704, 768, 896, 1024, 1152, 1280, 1408, 1536, 1792, 2048}
	for _, c := range classes {
		if n <= c {
			return c
		}
	}
	return n
}
