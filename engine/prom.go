package main

// Model of the prometheus client (client_golang 1.11): vectors are opaque objects
// that remember kind, name and label names; With() checks the labels as the real
// client does (nil vector -> nil dereference, wrong label set -> panic) and hands
// out one metric object per label-value combination; Add/Set/Observe are recorded.
// The registry itself is not modelled: the reporter talks to a prom.Registerer
// interface which the harness implements.  Harness helpers named v* in package
// tally/prometheus read the model back (natively they read the real metric).

import (
	"fmt"
	"go/types"
	"sort"
	"strings"

	"golang.org/x/tools/go/ssa"
)

const promPkg = "github.com/prometheus/client_golang/prometheus"

type promVec struct {
	kind   string // counter gauge histogram summary
	name   string
	labels []string
	id     int
	series map[string]*promMetric
	upper  []*Term
}

type promMetric struct {
	vec    *promVec
	key    string
	cell   *Value
	value  *Term   // counter / gauge (float bits)
	obs    []*Term // histogram / summary observations
	nCalls int
}

func (m *Machine) promVecOf(p *Value) *promVec {
	if p == nil {
		return nil
	}
	return m.promVecs[p]
}

func init() {
	I := intrinsics
	mkVec := func(kind string) intrinsic {
		return func(th *Thread, fn *ssa.Function, args []Value) Value {
			m := th.m
			if m.promVecs == nil {
				m.promVecs = map[*Value]*promVec{}
				m.promMetrics = map[*Value]*promMetric{}
			}
			opts := args[0].(Struct)
			ot := fn.Signature.Params().At(0).Type().Underlying().(*types.Struct)
			name := ""
			var upper []*Term
			for i := 0; i < ot.NumFields(); i++ {
				switch ot.Field(i).Name() {
				case "Name":
					name = concreteStr(m, opts[i], "prometheus metric name")
				case "Buckets":
					if sl, ok := opts[i].(Slice); ok {
						for _, b := range sl {
							upper = append(upper, b.(*Term))
						}
					}
				}
			}
			var labels []string
			for _, l := range args[1].(Slice) {
				labels = append(labels, concreteStr(m, l, "prometheus label name"))
			}
			sort.Strings(labels)
			cell := new(Value)
			*cell = m.zero(deref(fn.Signature.Results().At(0).Type()))
			m.promVecs[cell] = &promVec{kind: kind, name: name, labels: labels, id: len(m.promVecs), series: map[string]*promMetric{}, upper: upper}
			return cell
		}
	}
	I[promPkg+".NewCounterVec"] = mkVec("counter")
	I[promPkg+".NewGaugeVec"] = mkVec("gauge")
	I[promPkg+".NewHistogramVec"] = mkVec("histogram")
	I[promPkg+".NewSummaryVec"] = mkVec("summary")

	with := func(typeName string) intrinsic {
		return func(th *Thread, fn *ssa.Function, args []Value) Value {
			m := th.m
			p := args[0].(*Value)
			if p == nil {
				th.rtPanic("invalid memory address or nil pointer dereference (With on a nil prometheus vector)")
			}
			v := m.promVecOf(p)
			if v == nil {
				m.unsupported("prometheus vector that was not created through New*Vec")
			}
			lm, _ := args[1].(*Map)
			var keys []string
			vals := map[string]string{}
			if lm != nil {
				for _, e := range lm.Entries {
					if e.Deleted {
						continue
					}
					k := concreteStr(m, e.K, "prometheus label name")
					keys = append(keys, k)
					vals[k] = concreteStr(m, e.V, "prometheus label value")
				}
			}
			sort.Strings(keys)
			if strings.Join(keys, "\x00") != strings.Join(v.labels, "\x00") {
				panic(targetPanic{v: m.runtimeError("inconsistent label cardinality or label name"), desc: fmt.Sprintf("panic: prometheus: labels %v do not match the vector's %v", keys, v.labels)})
			}
			key := ""
			for _, k := range keys {
				key += k + "=" + vals[k] + "\x00"
			}
			pm := v.series[key]
			if pm == nil {
				pkg := m.prog.ImportedPackage(promPkg)
				t := pkg.Type(typeName).Type()
				cell := new(Value)
				*cell = m.zero(t)
				pm = &promMetric{vec: v, key: key, cell: cell, value: m.ts.Const(64, 0)}
				v.series[key] = pm
				m.promMetrics[cell] = pm
			}
			pkg := m.prog.ImportedPackage(promPkg)
			return Iface{T: types.NewPointer(pkg.Type(typeName).Type()), V: pm.cell}
		}
	}
	I["(*"+promPkg+".CounterVec).With"] = with("counter")
	I["(*"+promPkg+".GaugeVec).With"] = with("gauge")
	I["(*"+promPkg+".HistogramVec).With"] = with("histogram")
	I["(*"+promPkg+".SummaryVec).With"] = with("summary")

	metricOf := func(th *Thread, v Value) *promMetric {
		p, _ := v.(*Value)
		if p == nil {
			th.rtPanic("invalid memory address or nil pointer dereference (nil prometheus metric)")
		}
		pm := th.m.promMetrics[p]
		if pm == nil {
			th.m.unsupported("prometheus metric that was not obtained through With")
		}
		return pm
	}
	I["(*"+promPkg+".counter).Add"] = func(th *Thread, fn *ssa.Function, args []Value) Value {
		m := th.m
		pm := metricOf(th, args[0])
		v := args[1].(*Term)
		neg := m.ts.FCmp(OpFLt, v, m.ts.Const(64, 0))
		if m.decide(neg) {
			panic(targetPanic{v: m.runtimeError("counter cannot decrease in value"), desc: "panic: counter cannot decrease in value"})
		}
		pm.value = m.ts.FBin(OpFAdd, pm.value, v)
		pm.nCalls++
		return nil
	}
	I["(*"+promPkg+".counter).Inc"] = func(th *Thread, fn *ssa.Function, args []Value) Value {
		m := th.m
		pm := metricOf(th, args[0])
		pm.value = m.ts.FBin(OpFAdd, pm.value, m.ts.Const(64, f64bits(1)))
		pm.nCalls++
		return nil
	}
	I["(*"+promPkg+".gauge).Set"] = func(th *Thread, fn *ssa.Function, args []Value) Value {
		pm := metricOf(th, args[0])
		pm.value = args[1].(*Term)
		pm.nCalls++
		return nil
	}
	obs := func(th *Thread, fn *ssa.Function, args []Value) Value {
		pm := metricOf(th, args[0])
		pm.obs = append(pm.obs, args[1].(*Term))
		pm.nCalls++
		return nil
	}
	I["(*"+promPkg+".histogram).Observe"] = obs
	I["(*"+promPkg+".summary).Observe"] = obs

	// harness read-back helpers (package tally/prometheus, names v*)
	const hp = "github.com/uber-go/tally/v4/prometheus."
	ifaceMetric := func(th *Thread, v Value) *promMetric {
		itf := v.(Iface)
		if itf.T == nil {
			th.rtPanic("nil prometheus metric interface")
		}
		return metricOf(th, itf.V)
	}
	I[hp+"vMetricValue"] = func(th *Thread, fn *ssa.Function, args []Value) Value {
		return ifaceMetric(th, args[0]).value
	}
	I[hp+"vMetricCalls"] = func(th *Thread, fn *ssa.Function, args []Value) Value {
		return th.m.ts.Const(64, uint64(ifaceMetric(th, args[0]).nCalls))
	}
	I[hp+"vObsCount"] = func(th *Thread, fn *ssa.Function, args []Value) Value {
		return th.m.ts.Const(64, uint64(len(ifaceMetric(th, args[0]).obs)))
	}
	I[hp+"vObsCumulative"] = func(th *Thread, fn *ssa.Function, args []Value) Value {
		m := th.m
		pm := ifaceMetric(th, args[0])
		bound := args[1].(*Term)
		n := m.ts.Const(64, 0)
		for _, o := range pm.obs {
			n = m.ts.Bin(OpAdd, n, m.ts.Ite(m.ts.FCmp(OpFLe, o, bound), m.ts.Const(64, 1), m.ts.Const(64, 0)))
		}
		return n
	}
	I[hp+"vObsSum"] = func(th *Thread, fn *ssa.Function, args []Value) Value {
		m := th.m
		pm := ifaceMetric(th, args[0])
		s := m.ts.Const(64, 0)
		for _, o := range pm.obs {
			s = m.ts.FBin(OpFAdd, s, o)
		}
		return s
	}
	I[hp+"vSameFamily"] = func(th *Thread, fn *ssa.Function, args []Value) Value {
		a, b := ifaceMetric(th, args[0]), ifaceMetric(th, args[1])
		return th.m.ts.Bool(a.vec == b.vec && a != b)
	}
}

// Registry model: a collector is rejected iff a collector with the same fully-qualified
// name was registered before (the reporter gives every kind its own help string, so two
// vectors of one name never have identical descriptors: the real registry rejects them).
func init() {
	I := intrinsics
	I[promPkg+".NewRegistry"] = func(th *Thread, fn *ssa.Function, args []Value) Value {
		cell := new(Value)
		*cell = th.m.zero(deref(fn.Signature.Results().At(0).Type()))
		return cell
	}
	I["(*"+promPkg+".Registry).Register"] = func(th *Thread, fn *ssa.Function, args []Value) Value {
		m := th.m
		reg := args[0].(*Value)
		c := args[1].(Iface)
		vp, _ := c.V.(*Value)
		v := m.promVecOf(vp)
		if v == nil {
			m.unsupported("Register of a collector that is not a modelled vector")
		}
		if m.promRegistered == nil {
			m.promRegistered = map[*Value]map[string]bool{}
		}
		if m.promRegistered[reg] == nil {
			m.promRegistered[reg] = map[string]bool{}
		}
		if m.promRegistered[reg][v.name] {
			return m.newError(Str{C: "a previously registered descriptor with the same fully-qualified name has different label names or a different help string"})
		}
		m.promRegistered[reg][v.name] = true
		return Iface{}
	}
}
