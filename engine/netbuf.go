package main

// Abstract bytes.Buffer (content = rope of byte terms / opaque chunks) and the
// model of a UDP connection.  Enabled per run by verifrt.AbstractBuffers();
// without it bytes.Buffer's real code is interpreted.

import (
	"fmt"
	"go/types"
	"strconv"

	"golang.org/x/tools/go/ssa"
)

// OBytes is a []byte whose content is a rope (possibly of symbolic length).
type OBytes struct{ S Str }

type udpState struct {
	closed    bool
	failNext  bool
	datagrams []Str
	writes    int
}

var absBufIntrinsics map[string]intrinsic

func (m *Machine) bufContent(p *Value) Str {
	if m.absBufs == nil {
		m.absBufs = map[*Value]Str{}
	}
	return m.absBufs[p]
}

func (th *Thread) bytesArg(v Value) Str {
	switch b := v.(type) {
	case OBytes:
		return b.S
	case Slice:
		bs := make([]*Term, len(b))
		for i := range b {
			bs[i] = b[i].(*Term)
		}
		if len(bs) == 0 {
			return Str{}
		}
		return mkStr(bs)
	}
	th.m.unsupported(fmt.Sprintf("byte slice argument of kind %T", v))
	return Str{}
}

// udp returns the state of a connection given a *net.UDPConn or the address of
// its embedded net.conn (the receiver of the promoted Write/Close methods).
func (m *Machine) udp(p *Value) *udpState {
	if st, ok := (*p).(Struct); ok && len(st) == 1 {
		if _, inner := st[0].(Struct); inner {
			p = &st[0]
		}
	}
	if m.udps == nil {
		m.udps = map[*Value]*udpState{}
	}
	st := m.udps[p]
	if st == nil {
		st = &udpState{}
		m.udps[p] = st
	}
	return st
}

func init() {
	A := map[string]intrinsic{}
	absBufIntrinsics = A
	nilErr := Iface{}
	A["(*bytes.Buffer).Write"] = func(th *Thread, fn *ssa.Function, args []Value) Value {
		m := th.m
		p := args[0].(*Value)
		s := th.bytesArg(args[1])
		m.absBufs[p] = th.strConcat(m.bufContent(p), s).(Str)
		m.bufGrewTo(th, p)
		return Tuple{th.strLenTerm(s), nilErr}
	}
	A["(*bytes.Buffer).WriteString"] = func(th *Thread, fn *ssa.Function, args []Value) Value {
		m := th.m
		p := args[0].(*Value)
		s := args[1].(Str)
		m.absBufs[p] = th.strConcat(m.bufContent(p), s).(Str)
		m.bufGrewTo(th, p)
		return Tuple{th.strLenTerm(s), nilErr}
	}
	A["(*bytes.Buffer).WriteByte"] = func(th *Thread, fn *ssa.Function, args []Value) Value {
		m := th.m
		p := args[0].(*Value)
		m.absBufs[p] = th.strConcat(m.bufContent(p), mkStr([]*Term{args[1].(*Term)})).(Str)
		m.bufGrewTo(th, p)
		return nilErr
	}
	A["(*bytes.Buffer).Len"] = func(th *Thread, fn *ssa.Function, args []Value) Value {
		return th.strLenTerm(th.m.bufContent(args[0].(*Value)))
	}
	A["(*bytes.Buffer).Bytes"] = func(th *Thread, fn *ssa.Function, args []Value) Value {
		return OBytes{th.m.bufContent(args[0].(*Value))}
	}
	A["(*bytes.Buffer).String"] = func(th *Thread, fn *ssa.Function, args []Value) Value {
		return th.m.bufContent(args[0].(*Value))
	}
	A["(*bytes.Buffer).Reset"] = func(th *Thread, fn *ssa.Function, args []Value) Value {
		th.m.bufContent(args[0].(*Value))
		th.m.absBufs[args[0].(*Value)] = Str{}
		return nil
	}
	// capacity of an abstract buffer: known after Grow on an empty buffer (the runtime's size
	// classes), carried along while the content fits, otherwise an unknown value >= the length
	A["(*bytes.Buffer).Grow"] = func(th *Thread, fn *ssa.Function, args []Value) Value {
		m := th.m
		p := args[0].(*Value)
		n := args[1].(*Term)
		ln := th.strLenTerm(m.bufContent(p))
		if n.IsConst() && int64(n.Val) < 0 {
			th.rtPanic("bytes.Buffer.Grow: negative count")
		}
		cur := m.bufCap(p)
		if n.IsConst() && ln.IsConst() && ln.Val == 0 && cur.IsConst() {
			if int(n.Val) > int(cur.Val) {
				c := int(n.Val)
				if cur.Val == 0 && c <= 64 {
					c = 64
				} else if c < 2*int(cur.Val) {
					c = 2 * int(cur.Val)
				}
				m.absCaps[p] = m.ts.Const(64, uint64(roundupsizeLarge(c)))
			}
			return nil
		}
		need := m.ts.Bin(OpAdd, ln, n)
		m.absCaps[p] = m.capAtLeast(cur, need)
		return nil
	}
	A["(*bytes.Buffer).Available"] = func(th *Thread, fn *ssa.Function, args []Value) Value {
		m := th.m
		p := args[0].(*Value)
		return m.ts.Bin(OpSub, m.bufCap(p), th.strLenTerm(m.bufContent(p)))
	}
	A["(*bytes.Buffer).Cap"] = func(th *Thread, fn *ssa.Function, args []Value) Value {
		return th.m.bufCap(args[0].(*Value))
	}
	A["(*bytes.Buffer).Truncate"] = func(th *Thread, fn *ssa.Function, args []Value) Value {
		m := th.m
		n := args[1].(*Term)
		p := args[0].(*Value)
		cur := m.bufContent(p)
		if n.IsConst() && n.Val == 0 {
			m.absBufs[p] = Str{}
			return nil
		}
		if cur.Opaque == nil && n.IsConst() {
			bs := m.strBytes(cur)
			if int(n.Val) > len(bs) {
				th.rtPanic("bytes.Buffer: truncation out of range")
			}
			m.absBufs[p] = mkStr(bs[:n.Val])
			return nil
		}
		m.unsupported("bytes.Buffer.Truncate of an abstract buffer to a non-zero length")
		return nil
	}

	I := intrinsics
	I[rtPkg+"AbstractBuffers"] = func(th *Thread, fn *ssa.Function, args []Value) Value {
		th.m.absBuf = true
		if th.m.absBufs == nil {
			th.m.absBufs = map[*Value]Str{}
		}
		return nil
	}
	I[rtPkg+"OpaqueBytes"] = func(th *Thread, fn *ssa.Function, args []Value) Value {
		return OBytes{I[rtPkg+"OpaqueString"](th, fn, args).(Str)}
	}
	I[rtPkg+"NewUDPConn"] = func(th *Thread, fn *ssa.Function, args []Value) Value {
		m := th.m
		cell := new(Value)
		*cell = m.zero(deref(fn.Signature.Results().At(0).Type()))
		m.udp(cell)
		return cell
	}
	I[rtPkg+"SetSendFault"] = func(th *Thread, fn *ssa.Function, args []Value) Value {
		m := th.m
		c := args[1].(*Term)
		if !c.IsConst() {
			m.unsupported("SetSendFault with a symbolic flag")
		}
		m.udp(args[0].(*Value)).failNext = c.Val == 1
		return nil
	}
	I[rtPkg+"Datagrams"] = func(th *Thread, fn *ssa.Function, args []Value) Value {
		return th.m.ts.Const(64, uint64(len(th.m.udp(args[0].(*Value)).datagrams)))
	}
	dg := func(th *Thread, args []Value) Str {
		m := th.m
		st := m.udp(args[0].(*Value))
		i := int(m.asInt(args[1]))
		if i < 0 || i >= len(st.datagrams) {
			th.rtPanic("verifrt.Datagram index out of range")
		}
		return st.datagrams[i]
	}
	I[rtPkg+"DatagramEq"] = func(th *Thread, fn *ssa.Function, args []Value) Value {
		return th.equal(dg(th, args), args[2])
	}
	I[rtPkg+"DatagramLen"] = func(th *Thread, fn *ssa.Function, args []Value) Value {
		return th.strLenTerm(dg(th, args))
	}
	I[rtPkg+"Datagram"] = func(th *Thread, fn *ssa.Function, args []Value) Value {
		return dg(th, args)
	}
	I["(*net.conn).Write"] = func(th *Thread, fn *ssa.Function, args []Value) Value {
		m := th.m
		p := args[0].(*Value)
		if p == nil {
			th.rtPanic("invalid memory address or nil pointer dereference (nil *net.UDPConn)")
		}
		th.schedPoint("udp.Write")
		st := m.udp(p)
		st.writes++
		s := th.bytesArg(args[1])
		if st.closed {
			return Tuple{m.ts.Const(64, 0), m.sendError(false)}
		}
		if st.failNext {
			return Tuple{m.ts.Const(64, 0), m.sendError(true)}
		}
		st.datagrams = append(st.datagrams, s)
		return Tuple{th.strLenTerm(s), Iface{}}
	}
	I["(*net.conn).Close"] = func(th *Thread, fn *ssa.Function, args []Value) Value {
		m := th.m
		p := args[0].(*Value)
		if p == nil {
			th.rtPanic("invalid memory address or nil pointer dereference (nil *net.UDPConn)")
		}
		th.schedPoint("udp.Close")
		st := m.udp(p)
		if st.closed {
			return m.newError(Str{C: "use of closed network connection"})
		}
		st.closed = true
		return Iface{}
	}
	I["(*net.conn).SetWriteDeadline"] = func(th *Thread, fn *ssa.Function, args []Value) Value { return Iface{} }
}

// ---- errors.Is / errors.As / errors.Unwrap (reflectlite is not interpretable) ----

func (th *Thread) errUnwrap(e Iface) Iface {
	m := th.m
	if e.T == nil {
		return Iface{}
	}
	ms := m.prog.MethodSets.MethodSet(e.T)
	sel := ms.Lookup(nil, "Unwrap")
	if sel == nil {
		return Iface{}
	}
	f := m.prog.MethodValue(sel)
	if f == nil || f.Signature.Results().Len() != 1 {
		return Iface{}
	}
	if _, ok := f.Signature.Results().At(0).Type().Underlying().(*types.Interface); !ok {
		return Iface{} // Unwrap() []error not supported
	}
	r := th.call(th.fr, 0, &Closure{Fn: f}, []Value{e.V})
	return r.(Iface)
}

func init() {
	I := intrinsics
	I["errors.Unwrap"] = func(th *Thread, fn *ssa.Function, args []Value) Value {
		return th.errUnwrap(args[0].(Iface))
	}
	I["errors.Is"] = func(th *Thread, fn *ssa.Function, args []Value) Value {
		m := th.m
		target := args[1].(Iface)
		for e := args[0].(Iface); e.T != nil; e = th.errUnwrap(e) {
			if target.T != nil && types.Identical(e.T, target.T) {
				if t := th.equal(e.V, target.V); t.IsTrue() {
					return m.ts.Bool(true)
				} else if !t.IsFalse() {
					m.unsupported("errors.Is with a symbolic comparison")
				}
			}
		}
		return m.ts.Bool(args[0].(Iface).T == nil && target.T == nil)
	}
	I["errors.As"] = func(th *Thread, fn *ssa.Function, args []Value) Value {
		m := th.m
		target := args[1].(Iface)
		pt, ok := target.T.(*types.Pointer)
		if !ok || target.V.(*Value) == nil {
			th.rtPanic("errors: target must be a non-nil pointer")
		}
		elem := pt.Elem()
		cell := target.V.(*Value)
		for e := args[0].(Iface); e.T != nil; e = th.errUnwrap(e) {
			if it, isI := elem.Underlying().(*types.Interface); isI {
				if types.Implements(e.T, it) {
					*cell = e
					return m.ts.Bool(true)
				}
			} else if types.Identical(e.T, elem) {
				*cell = e.V
				return m.ts.Bool(true)
			}
		}
		return m.ts.Bool(false)
	}
}

// sendError builds the error a failed send returns: a *net.OpError wrapping the
// poll package's deadline-exceeded error (Timeout() == true), as a real socket
// whose write deadline has passed does; closed = use of closed connection.
func (m *Machine) sendError(timeout bool) Value {
	netP := m.prog.ImportedPackage("net")
	pollP := m.prog.ImportedPackage("internal/poll")
	if netP == nil || pollP == nil || netP.Type("OpError") == nil {
		return m.newError(Str{C: "send error"})
	}
	var inner Value = m.newError(Str{C: "use of closed network connection"})
	if timeout {
		if dt := pollP.Type("DeadlineExceededError"); dt != nil {
			c := new(Value)
			*c = m.zero(dt.Type())
			inner = Iface{T: types.NewPointer(dt.Type()), V: c}
		}
	}
	opT := netP.Type("OpError").Type()
	st := m.zero(opT).(Struct)
	ut := opT.Underlying().(*types.Struct)
	for i := 0; i < ut.NumFields(); i++ {
		switch ut.Field(i).Name() {
		case "Op":
			st[i] = Str{C: "write"}
		case "Net":
			st[i] = Str{C: "udp"}
		case "Err":
			st[i] = inner
		}
	}
	c := new(Value)
	*c = st
	return Iface{T: types.NewPointer(opT), V: c}
}

// ---- dialing: net.ResolveUDPAddr / net.DialUDP against a named sink -------------

func init() {
	I := intrinsics
	I[rtPkg+"NewUDPSink"] = func(th *Thread, fn *ssa.Function, args []Value) Value {
		m := th.m
		m.sinkCount++
		return Str{C: fmt.Sprintf("127.0.0.1:%d", 40000+m.sinkCount)}
	}
	I["net.ResolveUDPAddr"] = func(th *Thread, fn *ssa.Function, args []Value) Value {
		m := th.m
		addr := concreteStr(m, args[1], "UDP address")
		pt := fn.Signature.Results().At(0).Type()
		cell := new(Value)
		st := m.zero(deref(pt)).(Struct)
		ut := deref(pt).Underlying().(*types.Struct)
		for i := 0; i < ut.NumFields(); i++ {
			if ut.Field(i).Name() == "Zone" {
				st[i] = Str{C: addr}
			}
		}
		*cell = st
		return Tuple{cell, Iface{}}
	}
	I["net.DialUDP"] = func(th *Thread, fn *ssa.Function, args []Value) Value {
		m := th.m
		raddr := args[2].(*Value)
		name := ""
		if raddr != nil {
			ut := deref(fn.Signature.Params().At(2).Type()).Underlying().(*types.Struct)
			for i := 0; i < ut.NumFields(); i++ {
				if ut.Field(i).Name() == "Zone" {
					name = (*raddr).(Struct)[i].(Str).C
				}
			}
		}
		cell := new(Value)
		*cell = m.zero(deref(fn.Signature.Results().At(0).Type()))
		st := m.udp(cell)
		if m.sinks == nil {
			m.sinks = map[string][]*udpState{}
		}
		m.sinks[name] = append(m.sinks[name], st)
		return Tuple{cell, Iface{}}
	}
	sinkOf := func(th *Thread, v Value) *udpState {
		m := th.m
		name := concreteStr(m, v, "sink address")
		l := m.sinks[name]
		if len(l) == 0 {
			return &udpState{}
		}
		if len(l) > 1 {
			m.unsupported("several connections to one sink")
		}
		return l[0]
	}
	I[rtPkg+"SinkDatagrams"] = func(th *Thread, fn *ssa.Function, args []Value) Value {
		return th.m.ts.Const(64, uint64(len(sinkOf(th, args[0]).datagrams)))
	}
	I[rtPkg+"SinkDatagram"] = func(th *Thread, fn *ssa.Function, args []Value) Value {
		st := sinkOf(th, args[0])
		i := int(th.m.asInt(args[1]))
		if i < 0 || i >= len(st.datagrams) {
			th.rtPanic("verifrt.SinkDatagram index out of range")
		}
		return st.datagrams[i]
	}
	I[rtPkg+"SinkFault"] = func(th *Thread, fn *ssa.Function, args []Value) Value {
		c := args[1].(*Term)
		sinkOf(th, args[0]).failNext = c.IsConst() && c.Val == 1
		return nil
	}
}

// ---- sync.Map: an ordered entry list with interface keys (its real code uses unsafe
// pointers); every operation is a scheduling point and synchronises like a mutex ----------

func (m *Machine) syncMap(p *Value) *Map {
	if m.syncMaps == nil {
		m.syncMaps = map[*Value]*Map{}
	}
	mp := m.syncMaps[p]
	if mp == nil {
		m.mapIDs++
		mp = &Map{KeyT: types.NewInterfaceType(nil, nil), id: m.mapIDs}
		m.syncMaps[p] = mp
	}
	return mp
}

func init() {
	I := intrinsics
	sm := func(th *Thread, args []Value, what string) *Map {
		p := args[0].(*Value)
		if p == nil {
			th.rtPanic("invalid memory address or nil pointer dereference (nil *sync.Map)")
		}
		th.schedPoint("sync.Map." + what)
		st := lockOfMap(th, p)
		th.hbAcquire(st.vc)
		th.hbRelease(&st.vc)
		return th.m.syncMap(p)
	}
	I["(*sync.Map).Load"] = func(th *Thread, fn *ssa.Function, args []Value) Value {
		mp := sm(th, args, "Load")
		if e := th.mapFind(mp, args[1]); e != nil {
			return Tuple{copyVal(e.V), th.m.ts.Bool(true)}
		}
		return Tuple{Iface{}, th.m.ts.Bool(false)}
	}
	I["(*sync.Map).Store"] = func(th *Thread, fn *ssa.Function, args []Value) Value {
		mp := sm(th, args, "Store")
		th.mapInsert(mp, args[1], args[2])
		return nil
	}
	I["(*sync.Map).LoadOrStore"] = func(th *Thread, fn *ssa.Function, args []Value) Value {
		mp := sm(th, args, "LoadOrStore")
		if e := th.mapFind(mp, args[1]); e != nil {
			return Tuple{copyVal(e.V), th.m.ts.Bool(true)}
		}
		th.mapInsert(mp, args[1], args[2])
		return Tuple{args[2], th.m.ts.Bool(false)}
	}
	I["(*sync.Map).Delete"] = func(th *Thread, fn *ssa.Function, args []Value) Value {
		mp := sm(th, args, "Delete")
		if e := th.mapFind(mp, args[1]); e != nil {
			e.Deleted = true
		}
		return nil
	}
	I["(*sync.Map).LoadAndDelete"] = func(th *Thread, fn *ssa.Function, args []Value) Value {
		mp := sm(th, args, "LoadAndDelete")
		if e := th.mapFind(mp, args[1]); e != nil {
			e.Deleted = true
			return Tuple{copyVal(e.V), th.m.ts.Bool(true)}
		}
		return Tuple{Iface{}, th.m.ts.Bool(false)}
	}
	I["(*sync.Map).Range"] = func(th *Thread, fn *ssa.Function, args []Value) Value {
		mp := sm(th, args, "Range")
		snap := append([]*MapEntry{}, mp.Entries...)
		for _, e := range snap {
			if e.Deleted {
				continue
			}
			r := th.call(th.fr, 0, args[1], []Value{copyVal(e.K), copyVal(e.V)})
			if t, ok := r.(*Term); ok && t.IsFalse() {
				break
			}
		}
		return nil
	}

	// sort.Slice / sort.SliceStable go through reflection (reflectlite.Swapper); modelled as a
	// stable insertion sort that calls the real less closure and swaps the real slots.  For
	// elements that compare equal the order may differ from the library's pdqsort (sort.Slice
	// promises none); less results that are symbolic fork the path.
	sortSlice := func(th *Thread, fn *ssa.Function, args []Value) Value {
		m := th.m
		ifc, ok := args[0].(Iface)
		if !ok {
			m.unsupported("sort.Slice on a non-interface argument")
		}
		sl, ok := ifc.V.(Slice)
		if !ok {
			if ifc.V == nil {
				return nil
			}
			m.unsupported(fmt.Sprintf("sort.Slice on %T", ifc.V))
		}
		less := args[1]
		k := func(i int) *Term { return m.ts.Const(64, uint64(i)) }
		for i := 1; i < len(sl); i++ {
			for j := i; j > 0; j-- {
				r := th.call(th.fr, 0, less, []Value{k(j), k(j - 1)})
				c, ok := r.(*Term)
				if !ok {
					m.unsupported("sort.Slice: less did not return a bool")
				}
				if !m.decide(c) {
					break
				}
				th.onWrite(&sl[j])
				th.onWrite(&sl[j-1])
				sl[j], sl[j-1] = sl[j-1], sl[j]
			}
		}
		return nil
	}
	I["sort.Slice"] = sortSlice
	I["sort.SliceStable"] = sortSlice

	// a sliver of reflect: ValueOf, Kind and IsNil on the dynamic value of an interface (enough
	// for "is this a typed nil?" checks); the Value carries the interface in its first slot
	I["reflect.ValueOf"] = func(th *Thread, fn *ssa.Function, args []Value) Value {
		ifc, ok := args[0].(Iface)
		if !ok {
			th.m.unsupported("reflect.ValueOf of a non-interface")
		}
		return Struct{ifc, (*Value)(nil), th.m.ts.Const(64, 0)}
	}
	reflIface := func(th *Thread, v Value) Iface {
		st, ok := v.(Struct)
		if !ok || len(st) != 3 {
			th.m.unsupported("reflect.Value not made by the modelled reflect.ValueOf")
		}
		ifc, ok := st[0].(Iface)
		if !ok {
			th.m.unsupported("reflect.Value not made by the modelled reflect.ValueOf")
		}
		return ifc
	}
	I["(reflect.Value).Kind"] = func(th *Thread, fn *ssa.Function, args []Value) Value {
		ifc := reflIface(th, args[0])
		k := 0 // Invalid
		if ifc.T != nil {
			switch u := ifc.T.Underlying().(type) {
			case *types.Basic:
				switch u.Kind() {
				case types.Bool:
					k = 1
				case types.Int:
					k = 2
				case types.Int8:
					k = 3
				case types.Int16:
					k = 4
				case types.Int32:
					k = 5
				case types.Int64:
					k = 6
				case types.Uint:
					k = 7
				case types.Uint8:
					k = 8
				case types.Uint16:
					k = 9
				case types.Uint32:
					k = 10
				case types.Uint64:
					k = 11
				case types.Uintptr:
					k = 12
				case types.Float32:
					k = 13
				case types.Float64:
					k = 14
				case types.String:
					k = 24
				case types.UnsafePointer:
					k = 26
				default:
					th.m.unsupported("reflect.Kind of " + u.String())
				}
			case *types.Array:
				k = 17
			case *types.Chan:
				k = 18
			case *types.Signature:
				k = 19
			case *types.Interface:
				k = 20
			case *types.Map:
				k = 21
			case *types.Pointer:
				k = 22
			case *types.Slice:
				k = 23
			case *types.Struct:
				k = 25
			default:
				th.m.unsupported("reflect.Kind of " + ifc.T.String())
			}
		}
		return th.m.ts.Const(64, uint64(k))
	}
	I["(reflect.Value).IsNil"] = func(th *Thread, fn *ssa.Function, args []Value) Value {
		ifc := reflIface(th, args[0])
		switch v := ifc.V.(type) {
		case *Value:
			return th.m.ts.Bool(v == nil)
		case Slice:
			return th.m.ts.Bool(v == nil)
		case *Map:
			return th.m.ts.Bool(v == nil)
		case *Chan:
			return th.m.ts.Bool(v == nil)
		case *Closure:
			return th.m.ts.Bool(v == nil)
		case nil:
			if ifc.T != nil {
				switch ifc.T.Underlying().(type) {
				case *types.Slice, *types.Pointer, *types.Map, *types.Chan, *types.Signature:
					return th.m.ts.Bool(true)
				}
			}
		}
		th.rtPanic("reflect: call of reflect.Value.IsNil on a value that cannot be nil")
		return nil
	}

	// strconv on concrete numbers: evaluated natively
	I["strconv.FormatFloat"] = func(th *Thread, fn *ssa.Function, args []Value) Value {
		m := th.m
		f, fmtc, prec, bits := args[0].(*Term), args[1].(*Term), args[2].(*Term), args[3].(*Term)
		if !f.IsConst() && fmtc.IsConst() && byte(fmtc.Val) == 'f' && prec.IsConst() && prec.Signed() >= 0 && bits.IsConst() && bits.Val == 64 {
			// fmt renders %.Nf of a float64 through this very function: the same rendering token
			return m.sprintf(th, Str{C: "%." + strconv.Itoa(int(prec.Signed())) + "f"}, Slice{Iface{T: types.Typ[types.Float64], V: f}})
		}
		if !f.IsConst() || !fmtc.IsConst() || !prec.IsConst() || !bits.IsConst() {
			m.unsupported("strconv.FormatFloat of a symbolic value")
		}
		return Str{C: strconv.FormatFloat(f64(f.Val), byte(fmtc.Val), int(prec.Signed()), int(bits.Signed()))}
	}
	I["strconv.AppendFloat"] = func(th *Thread, fn *ssa.Function, args []Value) Value {
		m := th.m
		f, fmtc, prec, bits := args[1].(*Term), args[2].(*Term), args[3].(*Term), args[4].(*Term)
		if !f.IsConst() || !fmtc.IsConst() || !prec.IsConst() || !bits.IsConst() {
			m.unsupported("strconv.AppendFloat of a symbolic value")
		}
		out := append(Slice{}, args[0].(Slice)...)
		for _, c := range []byte(strconv.FormatFloat(f64(f.Val), byte(fmtc.Val), int(prec.Signed()), int(bits.Signed()))) {
			out = append(out, m.ts.Const(8, uint64(c)))
		}
		return out
	}
	I["strconv.AppendInt"] = func(th *Thread, fn *ssa.Function, args []Value) Value {
		m := th.m
		v, base := args[1].(*Term), args[2].(*Term)
		if !v.IsConst() || !base.IsConst() {
			m.unsupported("strconv.AppendInt of a symbolic value")
		}
		out := append(Slice{}, args[0].(Slice)...)
		for _, c := range []byte(strconv.FormatInt(v.Signed(), int(base.Signed()))) {
			out = append(out, m.ts.Const(8, uint64(c)))
		}
		return out
	}
}

func lockOfMap(th *Thread, p *Value) *mutexState {
	m := th.m
	st := m.mutexes[p]
	if st == nil {
		st = &mutexState{}
		m.mutexes[p] = st
	}
	return st
}

// ---- strings.Builder: content as a string value (its real code uses unsafe) ---------------

func init() {
	I := intrinsics
	get := func(th *Thread, p *Value) Str {
		if p == nil {
			th.rtPanic("invalid memory address or nil pointer dereference (nil *strings.Builder)")
		}
		if th.m.builders == nil {
			th.m.builders = map[*Value]Str{}
		}
		return th.m.builders[p]
	}
	I["(*strings.Builder).WriteString"] = func(th *Thread, fn *ssa.Function, args []Value) Value {
		p := args[0].(*Value)
		s := args[1].(Str)
		th.m.builders[p] = th.strConcat(get(th, p), s).(Str)
		return Tuple{th.strLenTerm(s), Iface{}}
	}
	I["(*strings.Builder).Write"] = func(th *Thread, fn *ssa.Function, args []Value) Value {
		p := args[0].(*Value)
		s := th.bytesArg(args[1])
		th.m.builders[p] = th.strConcat(get(th, p), s).(Str)
		return Tuple{th.strLenTerm(s), Iface{}}
	}
	I["(*strings.Builder).WriteByte"] = func(th *Thread, fn *ssa.Function, args []Value) Value {
		p := args[0].(*Value)
		th.m.builders[p] = th.strConcat(get(th, p), mkStr([]*Term{args[1].(*Term)})).(Str)
		return Iface{}
	}
	I["(*strings.Builder).WriteRune"] = func(th *Thread, fn *ssa.Function, args []Value) Value {
		m := th.m
		p := args[0].(*Value)
		r := args[1].(*Term)
		if !r.IsConst() {
			m.unsupported("strings.Builder.WriteRune of a symbolic rune")
		}
		s := string(rune(int32(r.Val)))
		m.builders[p] = th.strConcat(get(th, p), Str{C: s}).(Str)
		return Tuple{m.ts.Const(64, uint64(len(s))), Iface{}}
	}
	I["(*strings.Builder).String"] = func(th *Thread, fn *ssa.Function, args []Value) Value {
		return get(th, args[0].(*Value))
	}
	I["(*strings.Builder).Len"] = func(th *Thread, fn *ssa.Function, args []Value) Value {
		return th.strLenTerm(get(th, args[0].(*Value)))
	}
	I["(*strings.Builder).Cap"] = I["(*strings.Builder).Len"]
	I["(*strings.Builder).Grow"] = func(th *Thread, fn *ssa.Function, args []Value) Value {
		get(th, args[0].(*Value))
		return nil
	}
	I["(*strings.Builder).Reset"] = func(th *Thread, fn *ssa.Function, args []Value) Value {
		get(th, args[0].(*Value))
		th.m.builders[args[0].(*Value)] = Str{}
		return nil
	}
}

// bufCap: capacity of an abstract buffer (0 for a buffer nothing was written to yet).
func (m *Machine) bufCap(p *Value) *Term {
	if m.absCaps == nil {
		m.absCaps = map[*Value]*Term{}
	}
	if c, ok := m.absCaps[p]; ok {
		return c
	}
	c := m.ts.Const(64, 0)
	m.absCaps[p] = c
	return c
}

// capAtLeast: cur if it already covers need, otherwise an unknown capacity >= need.
func (m *Machine) capAtLeast(cur, need *Term) *Term {
	fits := m.ts.Cmp(OpSLe, need, cur)
	if fits.IsTrue() {
		return cur
	}
	// bytes.Buffer grows to max(2*cap, needed) rounded up to a malloc size class: at most an
	// eighth more for the small classes, less than a page (8 KiB) beyond them
	fresh := m.freshVar("buffer.cap", 64)
	twice := m.ts.Bin(OpShl, cur, m.ts.Const(64, 1))
	target := m.ts.Ite(m.ts.Cmp(OpSLt, twice, need), need, twice)
	slack := m.ts.Bin(OpAdd, m.ts.Bin(OpLShr, target, m.ts.Const(64, 3)), m.ts.Const(64, 8192))
	m.assume(m.ts.And(m.ts.Cmp(OpSLe, target, fresh), m.ts.Cmp(OpSLe, fresh, m.ts.Bin(OpAdd, target, slack))))
	m.assume(m.ts.Cmp(OpSLt, need, m.ts.Const(64, 1<<40)))
	if fits.IsFalse() {
		return fresh
	}
	return m.ts.Ite(fits, cur, fresh)
}

func (m *Machine) bufGrewTo(th *Thread, p *Value) {
	if !m.env.usesBufCap {
		return // nobody in the module under test can observe the capacity
	}
	m.absCaps[p] = m.capAtLeast(m.bufCap(p), th.strLenTerm(m.bufContent(p)))
}

// roundupsizeLarge: malloc size classes up to 32 KiB, whole pages (8 KiB) beyond.
func roundupsizeLarge(n int) int {
	if n <= 2048 {
		return roundupsize(n)
	}
	classes := []int{2304, 2688, 3072, 3200, 3456, 4096, 4864, 5376, 6144, 6528, 6784, 6912, 8192, 9472, 9728,
		10240, 10880, 12288, 13568, 14336, 16384, 18432, 19072, 20480, 21760, 24576, 27264, 28672, 32768}
	for _, c := range classes {
		if n <= c {
			return c
		}
	}
	return (n + 8191) / 8192 * 8192
}
