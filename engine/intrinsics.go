package main

// Models of the environment and the verifrt harness API.

import (
	"fmt"
	"go/types"
	"math"
	"runtime/debug"
	"strconv"
	"strings"

	"golang.org/x/tools/go/ssa"
)

func goStack() string { return string(debug.Stack()) }

type intrinsic func(th *Thread, fn *ssa.Function, args []Value) Value

var intrinsics map[string]intrinsic

const rtPkg = "github.com/uber-go/tally/v4/internal/verifrt."

func concreteStr(m *Machine, v Value, what string) string {
	s := v.(Str)
	if !s.IsConcrete() {
		m.unsupported(what + " must be a concrete string")
	}
	return s.C
}

func init() {
	intrinsics = map[string]intrinsic{}
	I := intrinsics
	symInt := func(w int) intrinsic {
		return func(th *Thread, fn *ssa.Function, args []Value) Value {
			return th.m.freshVar(concreteStr(th.m, args[0], "variable name"), w)
		}
	}
	I[rtPkg+"Int64"] = symInt(64)
	I[rtPkg+"Uint64"] = symInt(64)
	I[rtPkg+"Int"] = symInt(64)
	I[rtPkg+"Int32"] = symInt(32)
	I[rtPkg+"Int16"] = symInt(16)
	I[rtPkg+"Rune"] = symInt(32)
	I[rtPkg+"Byte"] = symInt(8)
	I[rtPkg+"Bool"] = symInt(0)
	I[rtPkg+"Float64"] = symInt(64)
	I[rtPkg+"Symbolic"] = func(th *Thread, fn *ssa.Function, args []Value) Value { return th.m.ts.Bool(true) }
	I[rtPkg+"String"] = func(th *Thread, fn *ssa.Function, args []Value) Value {
		m := th.m
		name := concreteStr(m, args[0], "variable name")
		n := int(m.asInt(args[1]))
		bs := make([]*Term, n)
		k := m.varCount[name]
		m.varCount[name] = k + 1
		for i := range bs {
			bs[i] = m.ts.Var(fmt.Sprintf("%s#%d[%d]", name, k, i), 8)
		}
		if n == 0 {
			return Str{}
		}
		return Str{Sym: bs}
	}
	I[rtPkg+"Bytes"] = func(th *Thread, fn *ssa.Function, args []Value) Value {
		s := I[rtPkg+"String"](th, fn, args).(Str)
		bs := th.m.strBytes(s)
		out := make(Slice, len(bs))
		for i, b := range bs {
			out[i] = b
		}
		return out
	}
	I[rtPkg+"OpaqueString"] = func(th *Thread, fn *ssa.Function, args []Value) Value {
		m := th.m
		name := concreteStr(m, args[0], "variable name")
		lo, hi := m.asInt(args[1]), m.asInt(args[2])
		l := m.freshVar(name+".len", 64)
		m.assume(m.ts.Cmp(OpSLe, m.ts.Const(64, uint64(lo)), l))
		m.assume(m.ts.Cmp(OpSLe, l, m.ts.Const(64, uint64(hi))))
		m.res.Assumes = appendUniq(m.res.Assumes, fmt.Sprintf("%d <= len(%s) <= %d", lo, name, hi))
		return Str{Opaque: &OpaqueStr{Len: l, Segs: []Seg{{ID: l.Name, Len: l}}}}
	}
	I[rtPkg+"Choose"] = func(th *Thread, fn *ssa.Function, args []Value) Value {
		m := th.m
		name := concreteStr(m, args[0], "choice name")
		n := int(m.asInt(args[1]))
		k := m.decideN(n)
		c := m.varCount["choose:"+name]
		m.varCount["choose:"+name] = c + 1
		m.choices[fmt.Sprintf("%s#%d", name, c)] = int64(k)
		return m.ts.Const(64, uint64(k))
	}
	I[rtPkg+"Assume"] = func(th *Thread, fn *ssa.Function, args []Value) Value {
		m := th.m
		c := args[0].(*Term)
		if c.IsFalse() {
			panic(abortRun{"assume", "assumption is false"})
		}
		if c.IsTrue() {
			return nil
		}
		if m.check(c) != Sat {
			panic(abortRun{"assume", "assumption infeasible on this path"})
		}
		m.assume(c)
		return nil
	}
	I[rtPkg+"Assert"] = func(th *Thread, fn *ssa.Function, args []Value) Value {
		th.m.assert(concreteStr(th.m, args[0], "assert label"), args[1].(*Term))
		return nil
	}
	I[rtPkg+"Class"] = func(th *Thread, fn *ssa.Function, args []Value) Value {
		m := th.m
		name := concreteStr(m, args[0], "class name")
		for i := range m.classes {
			if m.classes[i].name == name {
				m.classes[i].cond = args[1].(*Term)
				return nil
			}
		}
		m.classes = append(m.classes, classDef{name, args[1].(*Term)})
		return nil
	}
	I[rtPkg+"ClearClasses"] = func(th *Thread, fn *ssa.Function, args []Value) Value {
		th.m.classes = nil
		return nil
	}
	I[rtPkg+"Reach"] = func(th *Thread, fn *ssa.Function, args []Value) Value {
		th.m.res.Reached = appendUniq(th.m.res.Reached, concreteStr(th.m, args[0], "reach tag"))
		return nil
	}
	I[rtPkg+"And"] = func(th *Thread, fn *ssa.Function, args []Value) Value {
		return th.m.ts.And(args[0].(*Term), args[1].(*Term))
	}
	I[rtPkg+"Or"] = func(th *Thread, fn *ssa.Function, args []Value) Value {
		return th.m.ts.Or(args[0].(*Term), args[1].(*Term))
	}
	I[rtPkg+"Not"] = func(th *Thread, fn *ssa.Function, args []Value) Value {
		return th.m.ts.Not(args[0].(*Term))
	}
	I[rtPkg+"Implies"] = func(th *Thread, fn *ssa.Function, args []Value) Value {
		return th.m.ts.Implies(args[0].(*Term), args[1].(*Term))
	}
	I[rtPkg+"IteInt64"] = func(th *Thread, fn *ssa.Function, args []Value) Value {
		return th.m.ts.Ite(args[0].(*Term), args[1].(*Term), args[2].(*Term))
	}
	I[rtPkg+"EqStr"] = func(th *Thread, fn *ssa.Function, args []Value) Value {
		return th.equal(args[0], args[1])
	}
	I[rtPkg+"LessStr"] = func(th *Thread, fn *ssa.Function, args []Value) Value {
		return th.strLess(args[0].(Str), args[1].(Str))
	}
	I[rtPkg+"EqBytes"] = func(th *Thread, fn *ssa.Function, args []Value) Value {
		a, b := args[0].(Slice), args[1].(Slice)
		m := th.m
		if len(a) != len(b) {
			return m.ts.Bool(false)
		}
		r := m.ts.Bool(true)
		for i := range a {
			r = m.ts.And(r, m.ts.Eq(a[i].(*Term), b[i].(*Term)))
		}
		return r
	}
	emit := func(th *Thread, fn *ssa.Function, args []Value) Value {
		m := th.m
		th.schedPoint("emit")
		m.emits = append(m.emits, EmitRec{Tag: concreteStr(m, args[0], "emit tag"), Vals: append([]Value{}, args[1:]...)})
		return nil
	}
	I[rtPkg+"Emit"] = emit
	I[rtPkg+"EmitU"] = emit
	I[rtPkg+"EmitS"] = emit
	I[rtPkg+"EmitF"] = emit
	I[rtPkg+"EmitB"] = emit
	I[rtPkg+"LogAppend"] = func(th *Thread, fn *ssa.Function, args []Value) Value {
		th.schedPoint("log")
		th.m.sharedLog = append(th.m.sharedLog, args[0].(*Term))
		return nil
	}
	I[rtPkg+"LogLen"] = func(th *Thread, fn *ssa.Function, args []Value) Value {
		return th.m.ts.Const(64, uint64(len(th.m.sharedLog)))
	}
	I[rtPkg+"LogAt"] = func(th *Thread, fn *ssa.Function, args []Value) Value {
		i := int(th.m.asInt(args[0]))
		if i < 0 || i >= len(th.m.sharedLog) {
			th.rtPanic("verifrt.LogAt index out of range")
		}
		return th.m.sharedLog[i]
	}
	I[rtPkg+"SetTicks"] = func(th *Thread, fn *ssa.Function, args []Value) Value {
		th.m.maxTicks = int(th.m.asInt(args[0]))
		return nil
	}
	I[rtPkg+"Explore"] = func(th *Thread, fn *ssa.Function, args []Value) Value {
		m := th.m
		m.explore = true
		m.raceCheck = true
		m.maxPreempt = int(m.asInt(args[0]))
		return nil
	}
	I[rtPkg+"StopExplore"] = func(th *Thread, fn *ssa.Function, args []Value) Value {
		th.m.explore = false
		return nil
	}
	I[rtPkg+"PermuteMaps"] = func(th *Thread, fn *ssa.Function, args []Value) Value {
		th.m.permuteMaps = int(th.m.asInt(args[0]))
		return nil
	}
	I[rtPkg+"RotateMaps"] = func(th *Thread, fn *ssa.Function, args []Value) Value {
		th.m.rotateMaps = th.m.asInt(args[0]) != 0
		return nil
	}
	I[rtPkg+"LiveThreads"] = func(th *Thread, fn *ssa.Function, args []Value) Value {
		n := 0
		for _, t := range th.m.threads {
			if t != th && t.state != thDone {
				n++
			}
		}
		return th.m.ts.Const(64, uint64(n))
	}
	I[rtPkg+"ExploreOnly"] = func(th *Thread, fn *ssa.Function, args []Value) Value {
		m := th.m
		m.schedOnly = nil
		for _, a := range args[0].(Slice) {
			m.schedOnly = append(m.schedOnly, concreteStr(m, a, "package suffix"))
		}
		return nil
	}
	I[rtPkg+"RenderIntegralSplit"] = func(th *Thread, fn *ssa.Function, args []Value) Value {
		th.m.renderSplit = true
		return nil
	}
	I[rtPkg+"SplitConstDivision"] = func(th *Thread, fn *ssa.Function, args []Value) Value {
		th.m.divSplit = int(th.m.asInt(args[0]))
		return nil
	}
	I[rtPkg+"ConcreteHashes"] = func(th *Thread, fn *ssa.Function, args []Value) Value {
		th.m.concreteHashes = true
		return nil
	}
	I[rtPkg+"HashInjective"] = func(th *Thread, fn *ssa.Function, args []Value) Value {
		th.m.hashInjective = true
		return nil
	}
	I[rtPkg+"Yield"] = func(th *Thread, fn *ssa.Function, args []Value) Value {
		th.schedPoint("yield")
		return nil
	}
	// WaitIdle lets every other thread run until all are blocked or done.
	I[rtPkg+"WaitIdle"] = func(th *Thread, fn *ssa.Function, args []Value) Value {
		m := th.m
		th.block("wait-idle", func() bool {
			for _, t := range m.threads {
				if t != th && t.enabled() {
					return false
				}
			}
			return true
		})
		return nil
	}
	I[rtPkg+"Float64bits"] = func(th *Thread, fn *ssa.Function, args []Value) Value { return args[0] }
	I[rtPkg+"Float64frombits"] = func(th *Thread, fn *ssa.Function, args []Value) Value { return args[0] }
	I[rtPkg+"IsNaN"] = func(th *Thread, fn *ssa.Function, args []Value) Value {
		return th.m.ts.FIsNaN(args[0].(*Term))
	}
	I[rtPkg+"UF64"] = func(th *Thread, fn *ssa.Function, args []Value) Value {
		m := th.m
		name := concreteStr(m, args[0], "UF name")
		var ts []*Term
		for _, a := range args[1:] {
			ts = append(ts, a.(*Term))
		}
		return m.ts.UF("uf_"+name, 64, ts...)
	}

	// ---- math ----
	I["math.Float64bits"] = func(th *Thread, fn *ssa.Function, args []Value) Value { return args[0] }
	I["math.Float64frombits"] = func(th *Thread, fn *ssa.Function, args []Value) Value { return args[0] }
	I["math.Float32bits"] = func(th *Thread, fn *ssa.Function, args []Value) Value { return args[0] }
	I["math.Float32frombits"] = func(th *Thread, fn *ssa.Function, args []Value) Value { return args[0] }
	I["math.IsNaN"] = func(th *Thread, fn *ssa.Function, args []Value) Value {
		return th.m.ts.FIsNaN(args[0].(*Term))
	}
	I["math.IsInf"] = func(th *Thread, fn *ssa.Function, args []Value) Value {
		m := th.m
		ts := m.ts
		f := args[0].(*Term)
		sign := args[1].(*Term)
		pinf := ts.Eq(f, ts.Const(64, f64bits(math.Inf(1))))
		ninf := ts.Eq(f, ts.Const(64, f64bits(math.Inf(-1))))
		ge := ts.Cmp(OpSLe, ts.Const(64, 0), sign)
		le := ts.Cmp(OpSLe, sign, ts.Const(64, 0))
		return ts.Or(ts.And(ge, pinf), ts.And(le, ninf))
	}
	I["math.Abs"] = func(th *Thread, fn *ssa.Function, args []Value) Value {
		ts := th.m.ts
		return ts.Bin(OpBAnd, args[0].(*Term), ts.Const(64, ^uint64(0)>>1))
	}
	I["math.Trunc"] = func(th *Thread, fn *ssa.Function, args []Value) Value {
		m := th.m
		x := args[0].(*Term)
		if x.IsConst() {
			return m.ts.Const(64, f64bits(math.Trunc(f64(x.Val))))
		}
		// |x| < 2^63: the integer part is exactly representable as int64; beyond that every
		// float64 is integral already (and so are the infinities; NaN stays NaN)
		return m.ts.Ite(m.floatInInt64Range(x), m.ts.I2F(m.ts.F2I(x, true, 64), true, 64), x)
	}
	for _, name := range []string{"Pow", "Floor", "Ceil", "Log", "Log2", "Log10", "Sqrt", "Mod", "Exp", "Round", "Max", "Min"} {
		name := name
		I["math."+name] = func(th *Thread, fn *ssa.Function, args []Value) Value {
			m := th.m
			var fs []float64
			for _, a := range args {
				t := a.(*Term)
				if !t.IsConst() {
					m.unsupported("math." + name + " of a symbolic float")
				}
				fs = append(fs, f64(t.Val))
			}
			var r float64
			switch name {
			case "Pow":
				r = math.Pow(fs[0], fs[1])
			case "Floor":
				r = math.Floor(fs[0])
			case "Ceil":
				r = math.Ceil(fs[0])
			case "Log":
				r = math.Log(fs[0])
			case "Log2":
				r = math.Log2(fs[0])
			case "Log10":
				r = math.Log10(fs[0])
			case "Sqrt":
				r = math.Sqrt(fs[0])
			case "Trunc":
				r = math.Trunc(fs[0])
			case "Mod":
				r = math.Mod(fs[0], fs[1])
			case "Exp":
				r = math.Exp(fs[0])
			case "Round":
				r = math.Round(fs[0])
			case "Max":
				r = math.Max(fs[0], fs[1])
			case "Min":
				r = math.Min(fs[0], fs[1])
			}
			return m.ts.Const(64, f64bits(r))
		}
	}

	// ---- math/rand (top-level functions): an arbitrary value of the documented range ----
	for _, pkg := range []string{"math/rand", "math/rand/v2"} {
		pkg := pkg
		I[pkg+".Float64"] = func(th *Thread, fn *ssa.Function, args []Value) Value {
			m := th.m
			v := m.freshVar("rand.Float64", 64)
			m.assume(m.ts.And(m.ts.FCmp(OpFLe, m.ts.Const(64, f64bits(0)), v), m.ts.FCmp(OpFLt, v, m.ts.Const(64, f64bits(1)))))
			return v
		}
		I[pkg+".Float32"] = func(th *Thread, fn *ssa.Function, args []Value) Value {
			m := th.m
			v := m.freshVar("rand.Float32", 32)
			m.assume(m.ts.And(m.ts.FCmp(OpFLe, m.ts.Const(32, uint64(f32bits(0))), v), m.ts.FCmp(OpFLt, v, m.ts.Const(32, uint64(f32bits(1))))))
			return v
		}
		I[pkg+".Int63"] = func(th *Thread, fn *ssa.Function, args []Value) Value {
			m := th.m
			v := m.freshVar("rand.Int63", 64)
			m.assume(m.ts.Cmp(OpSLe, m.ts.Const(64, 0), v))
			return v
		}
		I[pkg+".Intn"] = func(th *Thread, fn *ssa.Function, args []Value) Value {
			m := th.m
			n := args[0].(*Term)
			v := m.freshVar("rand.Intn", 64)
			m.assume(m.ts.And(m.ts.Cmp(OpSLe, m.ts.Const(64, 0), v), m.ts.Cmp(OpSLt, v, n)))
			return v
		}
	}

	// ---- utf8 ----
	I["unicode/utf8.DecodeRuneInString"] = func(th *Thread, fn *ssa.Function, args []Value) Value {
		m := th.m
		bs := m.strBytes(args[0].(Str))
		if len(bs) == 0 {
			return Tuple{m.ts.Const(32, 0xFFFD), m.ts.Const(64, 0)}
		}
		r, w := th.decodeRune(bs)
		return Tuple{r, m.ts.Const(64, uint64(w))}
	}
	I["unicode/utf8.DecodeRune"] = func(th *Thread, fn *ssa.Function, args []Value) Value {
		m := th.m
		sl := args[0].(Slice)
		if len(sl) == 0 {
			return Tuple{m.ts.Const(32, 0xFFFD), m.ts.Const(64, 0)}
		}
		bs := make([]*Term, len(sl))
		for i := range sl {
			bs[i] = sl[i].(*Term)
		}
		r, w := th.decodeRune(bs)
		return Tuple{r, m.ts.Const(64, uint64(w))}
	}

	// ---- runtime ----
	I["runtime.GOMAXPROCS"] = func(th *Thread, fn *ssa.Function, args []Value) Value {
		return th.m.ts.Const(64, uint64(th.m.env.gomaxprocs))
	}
	I["runtime.Gosched"] = func(th *Thread, fn *ssa.Function, args []Value) Value {
		th.spinYield()
		return nil
	}
	I["runtime.KeepAlive"] = func(th *Thread, fn *ssa.Function, args []Value) Value { return nil }
	I["runtime.SetFinalizer"] = func(th *Thread, fn *ssa.Function, args []Value) Value { return nil }
	I["time.Sleep"] = func(th *Thread, fn *ssa.Function, args []Value) Value {
		th.spinYield()
		return nil
	}
	I["os.Hostname"] = func(th *Thread, fn *ssa.Function, args []Value) Value {
		return Tuple{Str{C: "verifhost"}, Iface{}}
	}

	// ---- sync ----
	lockOf := func(th *Thread, p *Value) *mutexState {
		m := th.m
		if p == nil {
			th.rtPanic("invalid memory address or nil pointer dereference (nil mutex)")
		}
		st := m.mutexes[p]
		if st == nil {
			st = &mutexState{}
			m.mutexes[p] = st
		}
		return st
	}
	lock := func(th *Thread, fn *ssa.Function, args []Value) Value {
		st := lockOf(th, args[0].(*Value))
		th.schedPoint("Lock")
		th.block("Lock", func() bool { return !st.writer && st.readers == 0 })
		st.writer = true
		th.hbAcquire(st.vc)
		return nil
	}
	unlock := func(th *Thread, fn *ssa.Function, args []Value) Value {
		st := lockOf(th, args[0].(*Value))
		th.schedPoint("Unlock")
		if !st.writer {
			panic(targetPanic{v: th.m.runtimeError("sync: unlock of unlocked mutex"), desc: "fatal error: sync: unlock of unlocked mutex"})
		}
		st.writer = false
		th.hbRelease(&st.vc)
		return nil
	}
	tryLock := func(th *Thread, fn *ssa.Function, args []Value) Value {
		st := lockOf(th, args[0].(*Value))
		th.schedPoint("TryLock")
		if !st.writer && st.readers == 0 {
			st.writer = true
			th.hbAcquire(st.vc)
			return th.m.ts.Bool(true)
		}
		return th.m.ts.Bool(false)
	}
	I["(*sync.Mutex).Lock"] = lock
	I["(*sync.Mutex).Unlock"] = unlock
	I["(*sync.Mutex).TryLock"] = tryLock
	I["(*sync.RWMutex).TryLock"] = tryLock
	I["(*sync.RWMutex).TryRLock"] = func(th *Thread, fn *ssa.Function, args []Value) Value {
		st := lockOf(th, args[0].(*Value))
		th.schedPoint("TryRLock")
		if !st.writer {
			st.readers++
			th.hbAcquire(st.vc)
			return th.m.ts.Bool(true)
		}
		return th.m.ts.Bool(false)
	}
	I["(*sync.RWMutex).Lock"] = lock
	I["(*sync.RWMutex).Unlock"] = unlock
	I["(*sync.RWMutex).RLock"] = func(th *Thread, fn *ssa.Function, args []Value) Value {
		st := lockOf(th, args[0].(*Value))
		th.schedPoint("RLock")
		th.block("RLock", func() bool { return !st.writer })
		st.readers++
		th.hbAcquire(st.vc)
		return nil
	}
	I["(*sync.RWMutex).RUnlock"] = func(th *Thread, fn *ssa.Function, args []Value) Value {
		st := lockOf(th, args[0].(*Value))
		th.schedPoint("RUnlock")
		if st.readers <= 0 {
			panic(targetPanic{v: th.m.runtimeError("sync: RUnlock of unlocked RWMutex"), desc: "fatal error: sync: RUnlock of unlocked RWMutex"})
		}
		st.readers--
		th.hbRelease(&st.vc)
		return nil
	}
	I["(*sync.WaitGroup).Add"] = func(th *Thread, fn *ssa.Function, args []Value) Value {
		m := th.m
		p := args[0].(*Value)
		th.schedPoint("wg.Add")
		st := m.wgState(p)
		delta := m.asInt(args[1])
		if delta > 0 && st.n == 0 && st.waiters > 0 {
			// as the runtime does: a counter leaving zero while a Wait is in progress
			panic(targetPanic{v: m.runtimeError("sync: WaitGroup misuse: Add called concurrently with Wait"), desc: "panic: sync: WaitGroup misuse: Add called concurrently with Wait"})
		}
		st.n += delta
		if st.n < 0 {
			panic(targetPanic{v: m.runtimeError("sync: negative WaitGroup counter"), desc: "panic: sync: negative WaitGroup counter"})
		}
		th.hbRelease(&st.vc)
		return nil
	}
	I["(*sync.WaitGroup).Done"] = func(th *Thread, fn *ssa.Function, args []Value) Value {
		m := th.m
		p := args[0].(*Value)
		th.schedPoint("wg.Done")
		st := m.wgState(p)
		st.n--
		if st.n < 0 {
			panic(targetPanic{v: m.runtimeError("sync: negative WaitGroup counter"), desc: "panic: sync: negative WaitGroup counter"})
		}
		th.hbRelease(&st.vc)
		return nil
	}
	I["(*sync.WaitGroup).Wait"] = func(th *Thread, fn *ssa.Function, args []Value) Value {
		m := th.m
		p := args[0].(*Value)
		th.schedPoint("wg.Wait")
		st := m.wgState(p)
		st.waiters++
		th.block("wg.Wait", func() bool { return st.n == 0 })
		st.waiters--
		th.hbAcquire(st.vc)
		return nil
	}
	I["(*sync.Pool).Get"] = func(th *Thread, fn *ssa.Function, args []Value) Value {
		m := th.m
		p := args[0].(*Value)
		th.schedPoint("pool.Get")
		if lst := m.pool[p]; len(lst) > 0 {
			v := lst[len(lst)-1]
			m.pool[p] = lst[:len(lst)-1]
			th.hbAcquire(m.poolVC[p])
			return v
		}
		// field New
		st := (*p).(Struct)
		pt := deref(fn.Signature.Recv().Type()).Underlying().(*types.Struct)
		for i := 0; i < pt.NumFields(); i++ {
			if pt.Field(i).Name() == "New" {
				nf := st[i].(*Closure)
				if nf == nil {
					return Iface{}
				}
				return th.call(th.fr, 0, nf, nil)
			}
		}
		return Iface{}
	}
	I["(*sync.Pool).Put"] = func(th *Thread, fn *ssa.Function, args []Value) Value {
		m := th.m
		p := args[0].(*Value)
		th.schedPoint("pool.Put")
		m.pool[p] = append(m.pool[p], args[1])
		vc := m.poolVC[p]
		th.hbRelease(&vc)
		m.poolVC[p] = vc
		return nil
	}

	// ---- hash ----
	I["(*hash/maphash.Hash).SetSeed"] = func(th *Thread, fn *ssa.Function, args []Value) Value { return nil }
	I["hash/maphash.MakeSeed"] = func(th *Thread, fn *ssa.Function, args []Value) Value {
		return th.m.zero(fn.Signature.Results().At(0).Type())
	}
	I["(*hash/maphash.Hash).Write"] = func(th *Thread, fn *ssa.Function, args []Value) Value {
		m := th.m
		p := args[0].(*Value)
		for _, b := range args[1].(Slice) {
			m.hashBuf[p] = append(m.hashBuf[p], b.(*Term))
		}
		return Tuple{m.ts.Const(64, uint64(len(args[1].(Slice)))), Iface{}}
	}
	I["(*hash/maphash.Hash).WriteString"] = func(th *Thread, fn *ssa.Function, args []Value) Value {
		m := th.m
		p := args[0].(*Value)
		bs := m.strBytes(args[1].(Str))
		m.hashBuf[p] = append(m.hashBuf[p], bs...)
		return Tuple{m.ts.Const(64, uint64(len(bs))), Iface{}}
	}
	I["(*hash/maphash.Hash).Sum64"] = func(th *Thread, fn *ssa.Function, args []Value) Value {
		m := th.m
		p := args[0].(*Value)
		return m.hashUF("maphash", m.hashBuf[p])
	}
	I["(*hash/maphash.Hash).Reset"] = func(th *Thread, fn *ssa.Function, args []Value) Value {
		delete(th.m.hashBuf, args[0].(*Value))
		return nil
	}
	I["github.com/twmb/murmur3.StringSum64"] = func(th *Thread, fn *ssa.Function, args []Value) Value {
		m := th.m
		if s := args[0].(Str); s.Opaque != nil {
			// hash of an abstract string: one free value per distinct rope
			id := "murmur3:"
			for _, sg := range s.Opaque.Segs {
				if sg.ID != "" {
					id += "[" + sg.ID + "]"
				} else {
					for _, b := range sg.Bytes {
						id += fmt.Sprintf("n%d,", b.id)
					}
				}
			}
			if m.opaqueHash == nil {
				m.opaqueHash = map[string]*Term{}
			}
			if t, ok := m.opaqueHash[id]; ok {
				return t
			}
			t := m.freshVar("hash.murmur3.opaque", 64)
			m.opaqueHash[id] = t
			return t
		}
		return m.hashUF("murmur3", m.strBytes(args[0].(Str)))
	}
	I["github.com/twmb/murmur3.Sum64"] = func(th *Thread, fn *ssa.Function, args []Value) Value {
		var bs []*Term
		for _, b := range args[0].(Slice) {
			bs = append(bs, b.(*Term))
		}
		return th.m.hashUF("murmur3", bs)
	}

	// ---- strconv / fmt (concrete arguments only, evaluated natively) ----
	I["strconv.Itoa"] = func(th *Thread, fn *ssa.Function, args []Value) Value {
		t := args[0].(*Term)
		if !t.IsConst() {
			// decimal rendering of a symbolic integer: uninterpreted, length unknown -> opaque
			th.m.unsupported("strconv.Itoa of a symbolic value")
		}
		return Str{C: strconv.Itoa(int(t.Signed()))}
	}
	I["strconv.FormatInt"] = func(th *Thread, fn *ssa.Function, args []Value) Value {
		m := th.m
		t, b := args[0].(*Term), args[1].(*Term)
		if t.IsConst() && b.IsConst() {
			return Str{C: strconv.FormatInt(t.Signed(), int(b.Signed()))}
		}
		if b.IsConst() && b.Val == 10 {
			return m.intToken(t) // decimal digits of a symbolic integer: a rendering token
		}
		m.unsupported("strconv.FormatInt of a symbolic value in a base other than 10")
		return nil
	}
	I["fmt.Sprintf"] = func(th *Thread, fn *ssa.Function, args []Value) Value {
		return th.m.sprintf(th, args[0].(Str), args[1].(Slice))
	}
	I["fmt.Sprint"] = func(th *Thread, fn *ssa.Function, args []Value) Value {
		sl := args[0].(Slice)
		f := strings.Repeat("%v ", len(sl))
		return th.m.sprintf(th, Str{C: strings.TrimSpace(f)}, sl)
	}
	I["fmt.Errorf"] = func(th *Thread, fn *ssa.Function, args []Value) Value {
		m := th.m
		f := args[0].(Str)
		// %w: the result wraps its operand (*fmt.wrapError{msg, err}) so that errors.Is/As/Unwrap see it
		if f.IsConcrete() && strings.Count(f.C, "%w") == 1 {
			var wrapped Value
			for _, a := range args[1].(Slice) {
				if itf, ok := a.(Iface); ok && itf.T != nil && m.implementsError(itf.T) {
					wrapped = itf
				}
			}
			if fp := m.prog.ImportedPackage("fmt"); wrapped != nil && fp != nil && fp.Type("wrapError") != nil {
				wt := fp.Type("wrapError").Type()
				c := new(Value)
				*c = Struct{Str{C: "wrapped: " + f.C}, wrapped}
				return Iface{T: types.NewPointer(wt), V: c}
			}
		}
		s := m.sprintf(th, Str{C: strings.ReplaceAll(f.C, "%w", "%v")}, args[1].(Slice))
		return m.newError(s.(Str))
	}
	I["fmt.Println"] = func(th *Thread, fn *ssa.Function, args []Value) Value {
		return Tuple{th.m.ts.Const(64, 0), Iface{}}
	}
	I["fmt.Printf"] = I["fmt.Println"]
	I["errors.New"] = func(th *Thread, fn *ssa.Function, args []Value) Value {
		return th.m.newError(args[0].(Str))
	}
	I["github.com/pkg/errors.New"] = I["errors.New"]
	I["github.com/pkg/errors.Errorf"] = I["fmt.Errorf"]
	I["github.com/pkg/errors.Wrap"] = func(th *Thread, fn *ssa.Function, args []Value) Value {
		if args[0].(Iface).T == nil {
			return Iface{}
		}
		return th.m.newError(Str{C: "wrapped error"})
	}
	I["github.com/pkg/errors.WithMessage"] = I["github.com/pkg/errors.Wrap"]
	I["github.com/pkg/errors.WithStack"] = func(th *Thread, fn *ssa.Function, args []Value) Value { return args[0] }
	I["github.com/pkg/errors.Wrapf"] = func(th *Thread, fn *ssa.Function, args []Value) Value {
		if args[0].(Iface).T == nil {
			return Iface{}
		}
		return th.m.newError(Str{C: "wrapped error"})
	}

	// ---- time ----
	// time.Time = Struct{wall ns, monotonic ns or noMono, nil}.  time.Now() carries both (equal
	// unless the harness shifts the wall clock with verifrt.ShiftWall); time.Unix, Truncate and
	// Round(0) give wall-only values; Sub/Before/After/Equal use the monotonic readings when both
	// operands have one, as the real package does.
	wallOf := func(v Value) *Term { return v.(Struct)[0].(*Term) }
	monoOf := func(v Value) *Term {
		t, ok := v.(Struct)[1].(*Term)
		if !ok {
			return nil
		}
		return t
	}
	cmpTerms := func(a, b Value) (*Term, *Term) {
		if ma, mb := monoOf(a), monoOf(b); ma != nil && mb != nil {
			return ma, mb
		}
		return wallOf(a), wallOf(b)
	}
	I["time.Now"] = func(th *Thread, fn *ssa.Function, args []Value) Value {
		m := th.m
		ts := m.ts
		now := m.freshVar("time.Now", 64)
		m.assume(ts.Cmp(OpSLe, ts.Const(64, 0), now))
		m.assume(ts.Cmp(OpSLe, now, ts.Const(64, 1<<62)))
		if m.lastNow != nil {
			m.assume(ts.Cmp(OpSLe, m.lastNow, now))
		}
		m.lastNow = now
		m.res.Assumes = appendUniq(m.res.Assumes, "time.Now returns non-decreasing instants in [0, 2^62) ns")
		return Struct{now, now, (*Value)(nil)}
	}
	I["time.Unix"] = func(th *Thread, fn *ssa.Function, args []Value) Value {
		m := th.m
		ts := m.ts
		sec, nsec := args[0].(*Term), args[1].(*Term)
		inst := ts.Bin(OpAdd, ts.Bin(OpMul, sec, ts.Const(64, 1000000000)), nsec)
		return m.mkTime(fn.Signature.Results().At(0).Type(), inst)
	}
	I["(time.Time).Sub"] = func(th *Thread, fn *ssa.Function, args []Value) Value {
		a, b := cmpTerms(args[0], args[1])
		return th.m.ts.Bin(OpSub, a, b)
	}
	I["time.Since"] = func(th *Thread, fn *ssa.Function, args []Value) Value {
		now := I["time.Now"](th, fn.Prog.ImportedPackage("time").Func("Now"), nil)
		a, b := cmpTerms(now, args[0])
		return th.m.ts.Bin(OpSub, a, b)
	}
	I["(time.Time).UnixNano"] = func(th *Thread, fn *ssa.Function, args []Value) Value {
		return wallOf(args[0])
	}
	I["(time.Time).IsZero"] = func(th *Thread, fn *ssa.Function, args []Value) Value {
		return th.m.ts.Eq(wallOf(args[0]), th.m.ts.Const(64, 0))
	}
	I["(time.Time).Before"] = func(th *Thread, fn *ssa.Function, args []Value) Value {
		a, b := cmpTerms(args[0], args[1])
		return th.m.ts.Cmp(OpSLt, a, b)
	}
	I["(time.Time).After"] = func(th *Thread, fn *ssa.Function, args []Value) Value {
		a, b := cmpTerms(args[0], args[1])
		return th.m.ts.Cmp(OpSLt, b, a)
	}
	I["(time.Time).Equal"] = func(th *Thread, fn *ssa.Function, args []Value) Value {
		a, b := cmpTerms(args[0], args[1])
		return th.m.ts.Eq(a, b)
	}
	I["(time.Time).Truncate"] = func(th *Thread, fn *ssa.Function, args []Value) Value {
		m := th.m
		d := args[1].(*Term)
		w := wallOf(args[0])
		if d.IsConst() && d.Signed() <= 0 {
			return m.mkTime(nil, w) // strips the monotonic reading
		}
		// instants are non-negative in this model: t - t mod d
		return m.mkTime(nil, m.ts.Bin(OpSub, w, m.ts.Bin(OpURem, w, d)))
	}
	I["(time.Time).Round"] = func(th *Thread, fn *ssa.Function, args []Value) Value {
		d := args[1].(*Term)
		if d.IsConst() && d.Signed() <= 0 {
			return th.m.mkTime(nil, wallOf(args[0])) // Round(0): strips the monotonic reading
		}
		th.m.unsupported("time.Time.Round with a positive duration")
		return nil
	}
	I["(time.Time).Add"] = func(th *Thread, fn *ssa.Function, args []Value) Value {
		ts := th.m.ts
		d := args[1].(*Term)
		out := Struct{ts.Bin(OpAdd, wallOf(args[0]), d), Iface{}, (*Value)(nil)}
		if mo := monoOf(args[0]); mo != nil {
			out[1] = ts.Bin(OpAdd, mo, d)
		}
		return out
	}
	I[rtPkg+"ShiftWall"] = func(th *Thread, fn *ssa.Function, args []Value) Value {
		ts := th.m.ts
		t := args[0].(Struct)
		delta := ts.Bin(OpMul, args[1].(*Term), ts.Const(64, 1000000000))
		return Struct{ts.Bin(OpAdd, t[0].(*Term), delta), t[1], t[2]}
	}
	I["(time.Duration).String"] = func(th *Thread, fn *ssa.Function, args []Value) Value {
		t := args[0].(*Term)
		if t.IsConst() {
			return Str{C: durationString(t.Signed())}
		}
		// rendering of a symbolic duration: opaque, identified by the term
		ln := th.m.ts.UF("uf_durlen", 64, t)
		return Str{Opaque: &OpaqueStr{Len: ln, Segs: []Seg{{ID: fmt.Sprintf("dur(n%d)", t.id), Tok: th.m.ts.UF("uf_durtok", 64, t), Len: ln}}}}
	}
	I["time.NewTicker"] = func(th *Thread, fn *ssa.Function, args []Value) Value {
		return th.m.newTicker(th, fn)
	}
	// time.NewTimer / time.After: a timer that may fire at any scheduling point (once)
	I["time.NewTimer"] = func(th *Thread, fn *ssa.Function, args []Value) Value {
		return th.m.newTickerN(th, fn.Signature.Results().At(0).Type(), 1)
	}
	I["time.After"] = func(th *Thread, fn *ssa.Function, args []Value) Value {
		m := th.m
		tp := m.prog.ImportedPackage("time")
		cell := m.newTickerN(th, types.NewPointer(tp.Type("Timer").Type()), 1).(*Value)
		st := deref(types.NewPointer(tp.Type("Timer").Type())).Underlying().(*types.Struct)
		for i := 0; i < st.NumFields(); i++ {
			if st.Field(i).Name() == "C" {
				return (*cell).(Struct)[i]
			}
		}
		return nil
	}
	I["(*time.Timer).Stop"] = func(th *Thread, fn *ssa.Function, args []Value) Value {
		m := th.m
		p := args[0].(*Value)
		fired := false
		if tk := m.tickers[p]; tk != nil {
			fired = tk.stopped || len(tk.ch.buf) > 0
			tk.stopped = true
		}
		return m.ts.Bool(!fired)
	}
	I["(*time.Ticker).Stop"] = func(th *Thread, fn *ssa.Function, args []Value) Value {
		m := th.m
		p := args[0].(*Value)
		if tk := m.tickers[p]; tk != nil {
			tk.stopped = true
		}
		return nil
	}
}

type wgState struct {
	n       int64
	vc      []int
	waiters int
}

func (m *Machine) wgState(p *Value) *wgState {
	st := m.wgStates[p]
	if st == nil {
		st = &wgState{}
		m.wgStates[p] = st
	}
	return st
}

func appendUniq(l []string, s string) []string {
	for _, x := range l {
		if x == s {
			return l
		}
	}
	return append(l, s)
}

// hashUF models a hash function as an uninterpreted function of the byte string
// (Ackermann expansion: equal inputs give equal outputs; nothing else is assumed).
func (m *Machine) hashUF(name string, bs []*Term) *Term {
	allConst := true
	for _, b := range bs {
		if !b.IsConst() {
			allConst = false
		}
	}
	if allConst && m.concreteHashes && name == "murmur3" {
		raw := make([]byte, len(bs))
		for i, b := range bs {
			raw[i] = byte(b.Val)
		}
		return m.ts.Const(64, murmur3Sum64(raw))
	}
	for _, c := range m.hashCalls {
		if c.fn != name || len(c.bytes) != len(bs) {
			continue
		}
		same := true
		for i := range bs {
			if bs[i] != c.bytes[i] {
				same = false
				break
			}
		}
		if same {
			return c.out
		}
	}
	out := m.freshVar("hash."+name, 64)
	for _, c := range m.hashCalls {
		if c.fn != name {
			continue
		}
		if len(c.bytes) != len(bs) {
			if m.hashInjective {
				m.assume(m.ts.Not(m.ts.Eq(out, c.out)))
			}
			continue
		}
		eq := m.ts.Bool(true)
		for i := range bs {
			eq = m.ts.And(eq, m.ts.Eq(bs[i], c.bytes[i]))
		}
		if m.hashInjective {
			// stated assumption of the harness: no two different inputs of this run collide
			m.assume(m.ts.Implies(m.ts.Not(eq), m.ts.Not(m.ts.Eq(out, c.out))))
		}
		if eq.IsFalse() {
			continue
		}
		m.assume(m.ts.Implies(eq, m.ts.Eq(out, c.out)))
	}
	if m.hashInjective {
		m.res.Assumes = appendUniq(m.res.Assumes, name+": different inputs hashed in this run do not collide (harness assumption)")
	}
	_ = allConst
	m.hashCalls = append(m.hashCalls, hashCall{fn: name, bytes: append([]*Term{}, bs...), out: out})
	m.res.Assumes = appendUniq(m.res.Assumes, name+" is modelled as an uninterpreted function of its input bytes")
	return out
}

// newError builds an error value of type *errors.errorString.
func (m *Machine) newError(msg Str) Value {
	cell := new(Value)
	*cell = Struct{msg}
	return Iface{T: m.env.errorStringPtrT, V: cell}
}

// mkTime builds a wall-only time value (a nil interface in the second slot marks the absence of a
// monotonic clock reading).
func (m *Machine) mkTime(T types.Type, wall *Term) Value {
	return Struct{wall, Iface{}, (*Value)(nil)}
}

func durationString(d int64) string {
	return (timeDuration(d)).String()
}

// sprintf evaluates fmt.Sprintf for concrete arguments of basic kinds; anything
// else yields an opaque string whose content must not be observed.
func (m *Machine) sprintf(th *Thread, format Str, args Slice) Value {
	if !format.IsConcrete() {
		m.unsupported("fmt.Sprintf with a symbolic format")
	}
	var nat []interface{}
	ok := true
	for _, a := range args {
		itf := a.(Iface)
		switch v := itf.V.(type) {
		case *Term:
			if !v.IsConst() {
				ok = false
				break
			}
			k, _ := scalarOf(itf.T)
			switch {
			case k.w == 0:
				nat = append(nat, v.Val == 1)
			case k.float:
				nat = append(nat, f64(v.Val))
			case k.signed:
				if named, isNamed := itf.T.(*types.Named); isNamed && named.Obj().Pkg() != nil && named.Obj().Pkg().Path() == "time" && named.Obj().Name() == "Duration" {
					nat = append(nat, timeDuration(v.Signed()))
				} else {
					nat = append(nat, v.Signed())
				}
			default:
				nat = append(nat, v.Val)
			}
		case Str:
			if !v.IsConcrete() {
				ok = false
				break
			}
			nat = append(nat, v.C)
		case nil:
			nat = append(nat, nil)
		default:
			// %T / %v of something complex
			if itf.T != nil && strings.Contains(format.C, "%T") {
				nat = append(nat, fakeTyped(itf.T.String()))
			} else if itf.T != nil && m.implementsError(itf.T) {
				nat = append(nat, "<error>")
			} else {
				ok = false
			}
		}
		if !ok {
			break
		}
	}
	if !ok {
		// symbolic pieces: try pure %s/%v/%d concatenation
		return m.sprintfSymbolic(th, format.C, args)
	}
	return Str{C: fmt.Sprintf(format.C, nat...)}
}

type fakeTyped string

func (f fakeTyped) Format(s fmt.State, verb rune) { fmt.Fprint(s, string(f)) }

func (m *Machine) implementsError(t types.Type) bool {
	ms := m.prog.MethodSets.MethodSet(t)
	return ms.Lookup(nil, "Error") != nil
}

// sprintfSymbolic handles formats made only of literal text and %s / %v verbs
// applied to strings (concatenation); %d / %f etc of symbolic values are
// rendered through uninterpreted functions as opaque strings.
func (m *Machine) sprintfSymbolic(th *Thread, format string, args Slice) Value {
	var out Value = Str{}
	ai := 0
	i := 0
	lit := func(s string) {
		if s != "" {
			out = th.strConcat(out.(Str), Str{C: s})
		}
	}
	for i < len(format) {
		j := strings.IndexByte(format[i:], '%')
		if j < 0 {
			lit(format[i:])
			break
		}
		lit(format[i : i+j])
		i += j + 1
		// parse flags/width/precision
		k := i
		for k < len(format) && strings.IndexByte("+-# 0123456789.", format[k]) >= 0 {
			k++
		}
		if k >= len(format) {
			m.unsupported("bad format " + format)
		}
		spec := format[i:k]
		verb := format[k]
		i = k + 1
		if verb == '%' {
			lit("%")
			continue
		}
		if ai >= len(args) {
			m.unsupported("format args exhausted " + format)
		}
		itf := args[ai].(Iface)
		ai++
		switch v := itf.V.(type) {
		case Str:
			if (verb == 's' || verb == 'v') && spec == "" {
				out = th.strConcat(out.(Str), v)
				continue
			}
		case *Term:
			if v.IsConst() {
				sub := m.sprintf(th, Str{C: "%" + spec + string(verb)}, Slice{itf})
				out = th.strConcat(out.(Str), sub.(Str))
				continue
			}
			// With verifrt.RenderIntegralSplit(): "%.Nf" of a float that is integral and fits int64 is
			// the decimal digits of that integer, a point and N zeros (a fact about strconv that is
			// part of the trusted base); the case split is a solver-decided fork.
			if k, _ := scalarOf(itf.T); m.renderSplit && verb == 'f' && k.float && k.w == 64 && len(spec) >= 2 && spec[0] == '.' {
				if n, err := strconv.Atoi(spec[1:]); err == nil && n >= 1 {
					integral := m.ts.And(m.floatInInt64Range(v), m.ts.FCmp(OpFEq, v, m.ts.I2F(m.ts.F2I(v, true, 64), true, 64)))
					if m.decide(integral) {
						out = th.strConcat(out.(Str), m.intToken(m.ts.F2I(v, true, 64)))
						out = th.strConcat(out.(Str), Str{C: "." + strings.Repeat("0", n)})
						continue
					}
				}
			}
			// symbolic number: opaque rendering identified by (spec, verb, term)
			arg := m.ts.ZExt(m.boolToBV(v), 64)
			ln := m.ts.UF("uf_fmtlen_"+sanitizeName(spec+string(verb)), 64, arg)
			o := &OpaqueStr{Len: ln, Segs: []Seg{{ID: fmt.Sprintf("fmt(%%%s%c,n%d)", spec, verb, v.id),
				Tok: m.ts.UF("uf_fmttok_"+sanitizeName(spec+string(verb)), 64, arg), Len: ln}}}
			out = th.strConcat(out.(Str), Str{Opaque: o})
			continue
		}
		m.unsupported(fmt.Sprintf("fmt verb %%%s%c on %T", spec, verb, itf.V))
	}
	return out
}

// floatInInt64Range: |x| < 2^63 (false for NaN and the infinities).
func (m *Machine) floatInInt64Range(x *Term) *Term {
	lim := m.ts.Const(64, f64bits(9223372036854775808.0))
	return m.ts.And(m.ts.FCmp(OpFLt, x, lim), m.ts.FCmp(OpFLt, m.ts.FNeg(lim), x))
}

// intToken: the decimal rendering of a symbolic integer as an uninterpreted token.
func (m *Machine) intToken(t *Term) Str {
	arg := t
	if t.W < 64 {
		arg = m.ts.SExt(t, 64)
	}
	ln := m.ts.UF("uf_intlen", 64, arg)
	return Str{Opaque: &OpaqueStr{Len: ln, Segs: []Seg{{ID: fmt.Sprintf("int(n%d)", arg.id), Tok: m.ts.UF("uf_inttok", 64, arg), Len: ln}}}}
}

func (m *Machine) boolToBV(t *Term) *Term {
	if t.W == 0 {
		return m.ts.BoolToBV(t, 1)
	}
	return t
}

func sanitizeName(s string) string {
	var sb strings.Builder
	for _, c := range s {
		if c >= 'a' && c <= 'z' || c >= 'A' && c <= 'Z' || c >= '0' && c <= '9' {
			sb.WriteRune(c)
		} else {
			fmt.Fprintf(&sb, "_%x", c)
		}
	}
	return sb.String()
}

// genericIntrinsic handles families of external functions by name pattern.
func genericIntrinsic(name string) intrinsic {
	if strings.HasPrefix(name, "sync/atomic.") {
		op := strings.TrimPrefix(name, "sync/atomic.")
		return atomicFunc(op)
	}
	if strings.HasPrefix(name, "(*sync/atomic.") {
		// typed atomics: (*sync/atomic.Int64).Add
		rest := strings.TrimPrefix(name, "(*sync/atomic.")
		i := strings.Index(rest, ").")
		if i > 0 {
			return atomicMethod(rest[:i], rest[i+2:])
		}
	}
	return nil
}

func atomicFunc(op string) intrinsic {
	kind := ""
	for _, k := range []string{"CompareAndSwap", "Load", "Store", "Add", "Swap", "And", "Or"} {
		if strings.HasPrefix(op, k) {
			kind = k
			break
		}
	}
	if kind == "" {
		return nil
	}
	return func(th *Thread, fn *ssa.Function, args []Value) Value {
		p := args[0].(*Value)
		return th.atomicOp(kind, p, args[1:])
	}
}

func atomicMethod(typ, meth string) intrinsic {
	return func(th *Thread, fn *ssa.Function, args []Value) Value {
		m := th.m
		p := args[0].(*Value)
		if p == nil {
			th.rtPanic("invalid memory address or nil pointer dereference")
		}
		st, ok := (*p).(Struct)
		if !ok {
			m.unsupported("typed atomic on " + typ)
		}
		// value field is the last one
		cell := &st[len(st)-1]
		if typ == "Bool" {
			// stored as uint32
			conv := func(v Value) Value { return m.ts.BoolToBV(v.(*Term), 32) }
			switch meth {
			case "Load":
				r := th.atomicOp("Load", cell, nil).(*Term)
				return m.ts.Not(m.ts.Eq(r, m.ts.Const(32, 0)))
			case "Store":
				return th.atomicOp("Store", cell, []Value{conv(args[1])})
			case "Swap":
				r := th.atomicOp("Swap", cell, []Value{conv(args[1])}).(*Term)
				return m.ts.Not(m.ts.Eq(r, m.ts.Const(32, 0)))
			case "CompareAndSwap":
				return th.atomicOp("CompareAndSwap", cell, []Value{conv(args[1]), conv(args[2])})
			}
		}
		if typ == "Value" || strings.HasPrefix(typ, "Pointer") {
			switch meth {
			case "Load":
				th.schedPoint("atomic.Load")
				th.hbAcquire(m.atomVC[cell])
				return *cell
			case "Store":
				th.schedPoint("atomic.Store")
				*cell = args[1]
				vc := m.atomVC[cell]
				th.hbRelease(&vc)
				m.atomVC[cell] = vc
				return nil
			}
			m.unsupported("atomic." + typ + "." + meth)
		}
		return th.atomicOp(meth, cell, args[1:])
	}
}

// atomicOp performs one sequentially consistent atomic operation.
func (th *Thread) atomicOp(kind string, p *Value, args []Value) Value {
	m := th.m
	ts := m.ts
	if p == nil {
		th.rtPanic("invalid memory address or nil pointer dereference")
	}
	if m.eventMode != nil {
		if r, ok := m.eventMode.atomic(th, kind, p, args); ok {
			return r
		}
	}
	th.schedPoint("atomic." + kind)
	vc := m.atomVC[p]
	if _, isTerm := (*p).(*Term); !isTerm {
		// pointer-valued cells (atomic.LoadPointer & co, the bodies of atomic.Pointer[T])
		defer func() {
			th.hbAcquire(vc)
			nvc := vc
			th.hbRelease(&nvc)
			m.atomVC[p] = nvc
		}()
		old := *p
		switch kind {
		case "Load":
			return old
		case "Store":
			*p = args[0]
			return nil
		case "Swap":
			*p = args[0]
			return old
		case "CompareAndSwap":
			if m.decide(th.equal(old, args[0])) {
				*p = args[1]
				return ts.Bool(true)
			}
			return ts.Bool(false)
		}
		m.unsupported("atomic op " + kind + " on a pointer cell")
	}
	cur := (*p).(*Term)
	defer func() {
		// every atomic op is both an acquire and a release (seq. consistency)
		th.hbAcquire(vc)
		nvc := vc
		th.hbRelease(&nvc)
		m.atomVC[p] = nvc
	}()
	switch kind {
	case "Load":
		return cur
	case "Store":
		*p = args[0]
		return nil
	case "Add":
		n := ts.Bin(OpAdd, cur, args[0].(*Term))
		*p = n
		return n
	case "Swap":
		*p = args[0]
		return cur
	case "And":
		*p = ts.Bin(OpBAnd, cur, args[0].(*Term))
		return cur
	case "Or":
		*p = ts.Bin(OpBOr, cur, args[0].(*Term))
		return cur
	case "CompareAndSwap":
		eq := ts.Eq(cur, args[0].(*Term))
		if m.decide(eq) {
			*p = args[1]
			return ts.Bool(true)
		}
		return ts.Bool(false)
	}
	m.unsupported("atomic op " + kind)
	return nil
}
