package main

// One long-lived SMT solver process ("z3 -in") per worker.  Every run starts
// with (reset); terms are introduced through define-fun so the DAG is shared.

import (
	"bufio"
	"fmt"
	"io"
	"os"
	"os/exec"
	"strconv"
	"strings"
	"time"
)

type SatResult int

const (
	Unsat SatResult = iota
	Sat
	Unknown
)

func (r SatResult) String() string { return [...]string{"unsat", "sat", "unknown"}[r] }

type Solver struct {
	cmdline    []string
	cmd        *exec.Cmd
	in         io.WriteCloser
	out        *bufio.Reader
	defined    map[int]bool
	declared   map[string]bool
	ufDecl     map[string]bool
	log        *os.File
	timeout    int // ms per query
	pendingPop bool
	curTimeout int
	// script: everything permanent sent since the last Reset (declarations, definitions,
	// assertions) - replayed into a fresh process by OneShot
	script   []string
	NOneShot int // queries the incremental process left unknown and a one-shot run decided

	// statistics (accumulated over the life of the worker)
	NSat, NUnsat, NUnknown int
	Time                   time.Duration
	Errors                 []string
}

func NewSolver(cmdline []string, timeoutMs int, logPath string) (*Solver, error) {
	s := &Solver{cmdline: cmdline, timeout: timeoutMs}
	if logPath != "" {
		f, err := os.Create(logPath)
		if err != nil {
			return nil, err
		}
		s.log = f
	}
	if err := s.start(); err != nil {
		return nil, err
	}
	return s, nil
}

func (s *Solver) start() error {
	s.cmd = exec.Command(s.cmdline[0], s.cmdline[1:]...)
	in, err := s.cmd.StdinPipe()
	if err != nil {
		return err
	}
	out, err := s.cmd.StdoutPipe()
	if err != nil {
		return err
	}
	s.cmd.Stderr = os.Stderr
	if err := s.cmd.Start(); err != nil {
		return err
	}
	s.in = in
	s.out = bufio.NewReaderSize(out, 1<<16)
	s.Reset()
	return nil
}

func (s *Solver) Close() {
	if s.in != nil {
		s.in.Close()
	}
	if s.cmd != nil {
		s.cmd.Process.Kill()
		s.cmd.Wait()
	}
	if s.log != nil {
		s.log.Close()
	}
}

func (s *Solver) send(line string) {
	if s.log != nil {
		fmt.Fprintln(s.log, line)
	}
	io.WriteString(s.in, line)
	io.WriteString(s.in, "\n")
}

// Reset clears all solver state; called at the start of every run.
func (s *Solver) Reset() {
	s.defined = map[int]bool{}
	s.declared = map[string]bool{}
	s.ufDecl = map[string]bool{}
	s.script = s.script[:0]
	s.send("(reset)")
	s.send("(set-option :print-success false)")
	s.curTimeout = s.timeout
	if s.isZ3() {
		s.send(fmt.Sprintf("(set-option :timeout %d)", s.timeout))
	} else {
		s.send("(set-logic ALL)")
	}
}

// SetTimeout changes the per-query timeout (ms).
func (s *Solver) SetTimeout(ms int) {
	if ms == s.curTimeout || ms <= 0 {
		return
	}
	s.curTimeout = ms
	if s.isZ3() {
		s.send(fmt.Sprintf("(set-option :timeout %d)", ms))
	}
}

func (s *Solver) isZ3() bool { return strings.Contains(s.cmdline[0], "z3") }

// define makes sure t and everything below it is known to the solver.
func (s *Solver) define(ts *TermStore, t *Term) {
	if t.Op == OpConst {
		return
	}
	if t.Op == OpVar {
		if !s.declared[t.Name] {
			s.declared[t.Name] = true
			s.sendKeep(fmt.Sprintf("(declare-const |%s| %s)", t.Name, sortName(t.W)))
		}
		return
	}
	if s.defined[t.id] {
		return
	}
	// iterative post-order to avoid deep recursion
	type item struct {
		t    *Term
		next int
	}
	stack := []item{{t, 0}}
	for len(stack) > 0 {
		it := &stack[len(stack)-1]
		if it.next < len(it.t.Args) {
			a := it.t.Args[it.next]
			it.next++
			if a.Op == OpConst {
				continue
			}
			if a.Op == OpVar {
				if !s.declared[a.Name] {
					s.declared[a.Name] = true
					s.sendKeep(fmt.Sprintf("(declare-const |%s| %s)", a.Name, sortName(a.W)))
				}
				continue
			}
			if !s.defined[a.id] {
				stack = append(stack, item{a, 0})
			}
			continue
		}
		cur := it.t
		stack = stack[:len(stack)-1]
		if s.defined[cur.id] {
			continue
		}
		if cur.Op == OpUF && !s.ufDecl[cur.Name] {
			s.ufDecl[cur.Name] = true
			s.sendKeep(ts.ufs[cur.Name])
		}
		s.defined[cur.id] = true
		s.sendKeep(fmt.Sprintf("(define-fun n%d () %s %s)", cur.id, sortName(cur.W), cur.body()))
	}
}

// Assert adds t permanently (until Reset) at the current level.
func (s *Solver) Assert(ts *TermStore, t *Term) {
	s.define(ts, t)
	s.sendKeep("(assert " + t.ref() + ")")
}

func (s *Solver) sendKeep(line string) {
	s.script = append(s.script, line)
	s.send(line)
}

// OneShot decides "current assertions plus extra" in a fresh solver process with a single
// check-sat and no push/pop.  z3 then runs its tactic pipeline (bit-blasting to SAT), which
// decides floating-point queries in seconds that the incremental core this worker normally
// talks to leaves unknown.  On sat the values of vars are returned.
func (s *Solver) OneShot(ts *TermStore, timeoutMs int, vars []*Term, extra ...*Term) (SatResult, map[string]uint64) {
	if !s.isZ3() {
		return Unknown, nil
	}
	for _, e := range extra {
		s.define(ts, e)
	}
	t0 := time.Now()
	defer func() { s.Time += time.Since(t0) }()
	args := []string{"-in", fmt.Sprintf("-T:%d", (timeoutMs+999)/1000)}
	cmd := exec.Command(s.cmdline[0], args...)
	in, err := cmd.StdinPipe()
	if err != nil {
		return Unknown, nil
	}
	outp, err := cmd.StdoutPipe()
	if err != nil {
		return Unknown, nil
	}
	if err := cmd.Start(); err != nil {
		return Unknown, nil
	}
	defer func() {
		in.Close()
		cmd.Process.Kill()
		cmd.Wait()
	}()
	w := bufio.NewWriterSize(in, 1<<16)
	for _, l := range s.script {
		w.WriteString(l)
		w.WriteByte('\n')
	}
	for _, e := range extra {
		w.WriteString("(assert " + e.ref() + ")\n")
	}
	w.WriteString("(check-sat)\n")
	if err := w.Flush(); err != nil {
		return Unknown, nil
	}
	if s.log != nil {
		fmt.Fprintf(s.log, "; one-shot query: %d script lines + %d extra\n", len(s.script), len(extra))
	}
	rd := bufio.NewReaderSize(outp, 1<<16)
	res := Unknown
	for {
		line, err := rd.ReadString('\n')
		line = strings.TrimSpace(line)
		if line == "sat" {
			res = Sat
			break
		}
		if line == "unsat" {
			res = Unsat
			break
		}
		if line == "unknown" || line == "timeout" || strings.HasPrefix(line, "(error") || err != nil {
			return Unknown, nil
		}
	}
	if res == Unsat {
		s.NUnsat++
		s.NUnknown--
		s.NOneShot++
		return Unsat, nil
	}
	// model
	model := map[string]uint64{}
	var names []*Term
	for _, v := range vars {
		if s.declared[v.Name] {
			names = append(names, v)
		}
	}
	alt := &Solver{out: rd}
	const chunk = 200
	for i := 0; i < len(names); i += chunk {
		j := i + chunk
		if j > len(names) {
			j = len(names)
		}
		var sb strings.Builder
		sb.WriteString("(get-value (")
		for _, v := range names[i:j] {
			sb.WriteString(" |" + v.Name + "|")
		}
		sb.WriteString("))\n")
		w.WriteString(sb.String())
		if err := w.Flush(); err != nil {
			return Unknown, nil
		}
		parseModel(alt.readSexp(), model)
	}
	s.NSat++
	s.NUnknown--
	s.NOneShot++
	return Sat, model
}

func (s *Solver) readLine() (string, error) {
	line, err := s.out.ReadString('\n')
	return strings.TrimSpace(line), err
}

// Check asks whether the current assertions plus extra are satisfiable.
func (s *Solver) Check(ts *TermStore, extra ...*Term) SatResult {
	for _, e := range extra {
		s.define(ts, e)
	}
	t0 := time.Now()
	if len(extra) > 0 {
		s.send("(push 1)")
		for _, e := range extra {
			s.send("(assert " + e.ref() + ")")
		}
	}
	s.send("(check-sat)")
	res := s.readResult()
	if len(extra) > 0 && res != Sat {
		s.send("(pop 1)")
	}
	// when Sat and extra given, caller must call PopAfterModel (to allow get-value)
	s.Time += time.Since(t0)
	switch res {
	case Sat:
		s.NSat++
	case Unsat:
		s.NUnsat++
	default:
		s.NUnknown++
	}
	s.pendingPop = len(extra) > 0 && res == Sat
	return res
}

func (s *Solver) readResult() SatResult {
	for {
		line, err := s.readLine()
		if err != nil {
			s.Errors = append(s.Errors, "solver died: "+err.Error())
			// restart
			s.cmd.Wait()
			if e := s.start(); e != nil {
				panic(e)
			}
			return Unknown
		}
		switch {
		case line == "sat":
			return Sat
		case line == "unsat":
			return Unsat
		case line == "unknown" || line == "timeout":
			return Unknown
		case strings.HasPrefix(line, "(error"):
			s.Errors = append(s.Errors, line)
			// keep reading: the check-sat answer still follows, but it is not trusted
			r := s.readResult()
			_ = r
			return Unknown
		case line == "":
			continue
		default:
			s.Errors = append(s.Errors, "unexpected solver output: "+line)
		}
	}
}

// pendingPop: a Check(extra...) that returned Sat keeps its push level so the
// model can be read; Done pops it.
func (s *Solver) Done() {
	if s.pendingPop {
		s.send("(pop 1)")
		s.pendingPop = false
	}
}

// Model returns the values of the given variables in the current model.
func (s *Solver) Model(vars []*Term) map[string]uint64 {
	m := map[string]uint64{}
	var names []*Term
	for _, v := range vars {
		if s.declared[v.Name] {
			names = append(names, v)
		}
	}
	const chunk = 200
	for i := 0; i < len(names); i += chunk {
		j := i + chunk
		if j > len(names) {
			j = len(names)
		}
		var sb strings.Builder
		sb.WriteString("(get-value (")
		for _, v := range names[i:j] {
			sb.WriteString(" |" + v.Name + "|")
		}
		sb.WriteString("))")
		s.send(sb.String())
		txt := s.readSexp()
		parseModel(txt, m)
	}
	return m
}

// readSexp reads one balanced s-expression from the solver.
func (s *Solver) readSexp() string {
	var sb strings.Builder
	depth := 0
	started := false
	inBar := false
	for {
		c, err := s.out.ReadByte()
		if err != nil {
			return sb.String()
		}
		sb.WriteByte(c)
		if c == '|' {
			inBar = !inBar
		}
		if inBar {
			continue
		}
		if c == '(' {
			depth++
			started = true
		} else if c == ')' {
			depth--
			if started && depth == 0 {
				return sb.String()
			}
		}
	}
}

// parseModel extracts (|name| value) pairs from a get-value answer.
func parseModel(txt string, m map[string]uint64) {
	i := 0
	n := len(txt)
	for i < n {
		// find "(|"
		j := strings.Index(txt[i:], "(|")
		if j < 0 {
			// names without bars (simple symbols) are printed bare by some solvers
			break
		}
		i += j + 2
		k := strings.IndexByte(txt[i:], '|')
		if k < 0 {
			break
		}
		name := txt[i : i+k]
		i += k + 1
		// skip spaces
		for i < n && (txt[i] == ' ' || txt[i] == '\n') {
			i++
		}
		// value up to matching ')'
		e := i
		depth := 0
		for e < n {
			if txt[e] == '(' {
				depth++
			} else if txt[e] == ')' {
				if depth == 0 {
					break
				}
				depth--
			}
			e++
		}
		val := strings.TrimSpace(txt[i:e])
		i = e
		if v, ok := parseValue(val); ok {
			m[name] = v
		}
	}
}

func parseValue(v string) (uint64, bool) {
	switch {
	case v == "true":
		return 1, true
	case v == "false":
		return 0, true
	case strings.HasPrefix(v, "#x"):
		u, err := strconv.ParseUint(v[2:], 16, 64)
		return u, err == nil
	case strings.HasPrefix(v, "#b"):
		u, err := strconv.ParseUint(v[2:], 2, 64)
		return u, err == nil
	case strings.HasPrefix(v, "(_ bv"):
		f := strings.Fields(v[5:])
		if len(f) > 0 {
			u, err := strconv.ParseUint(f[0], 10, 64)
			return u, err == nil
		}
	}
	return 0, false
}
