package main

import (
	"encoding/json"
	"flag"
	"fmt"
	"os"
	"runtime/pprof"
	"strconv"
	"strings"
)

type Output struct {
	Package     string           `json:"package"`
	LoadSeconds float64          `json:"load_s"`
	Results     []*HarnessResult `json:"results"`
	Error       string           `json:"error,omitempty"`
}

func main() {
	dir := flag.String("dir", "/repo", "directory of the package")
	pattern := flag.String("pkg", ".", "package pattern")
	overlay := flag.String("overlay", "", "overlay JSON file ({\"Replace\":{virtual:real}})")
	harness := flag.String("harness", "", "comma separated harness function names")
	workers := flag.Int("workers", 8, "parallel workers")
	maxPaths := flag.Int("maxpaths", 200000, "path limit per harness")
	maxSec := flag.Float64("maxsec", 600, "time limit per harness (s)")
	maxSteps := flag.Int("maxsteps", 5000000, "instruction budget per path")
	loopBound := flag.Int("loop", 5000, "per-loop-head iteration bound")
	solverMs := flag.Int("solverms", 60000, "solver timeout per query (ms)")
	branchOneShotMs := flag.Int("branchoneshotms", 0, "cap (ms) of the one-shot retry of an undecided branch query; 0 disables")
	oneShotMs := flag.Int("oneshotms", 60000, "cap (ms) of the retry of an unknown obligation in a fresh non-incremental z3 process; 0 disables")
	branchMs := flag.Int("branchms", 5000, "solver timeout for branch feasibility queries (ms); unknown = branch kept")
	solverCmd := flag.String("solver", "z3 -in", "solver command line")
	witness := flag.Int("witness", 20, "number of path witnesses to produce")
	out := flag.String("out", "", "result JSON file")
	trace := flag.Bool("trace", false, "trace instructions")
	vecStr := flag.String("vec", "", "run a single decision vector (comma separated) and print details")
	tags := flag.String("tags", "verif", "build tags")
	slog := flag.String("solverlog", "", "prefix for solver logs")
	gmp := flag.Int("gomaxprocs", 1, "value returned by runtime.GOMAXPROCS")
	cpuprof := flag.String("cpuprofile", "", "write cpu profile")
	flag.Parse()
	if *cpuprof != "" {
		f, _ := os.Create(*cpuprof)
		pprof.StartCPUProfile(f)
		defer pprof.StopCPUProfile()
	}

	o := &Output{Package: *pattern}
	env, err := LoadEnv(*dir, *pattern, *overlay, *tags)
	if err != nil {
		o.Error = err.Error()
		writeOut(o, *out)
		fmt.Fprintln(os.Stderr, "load failed:", err)
		os.Exit(3)
	}
	env.gomaxprocs = *gmp
	o.LoadSeconds = env.loadSeconds
	cfg := &ExploreConfig{
		Workers: *workers, MaxPaths: *maxPaths, MaxSeconds: *maxSec,
		Run:        RunConfig{MaxSteps: *maxSteps, LoopBound: *loopBound, SolverMs: *solverMs, OneShotMs: *oneShotMs, BranchOneShotMs: *branchOneShotMs, BranchMs: *branchMs, Trace: *trace},
		SolverCmd:  strings.Fields(*solverCmd),
		WitnessMax: *witness, SolverLog: *slog,
	}
	for _, h := range strings.Split(*harness, ",") {
		if h == "" {
			continue
		}
		if *vecStr != "" {
			cfg.Workers = 1
			cfg.SingleVec = []int64{}
			for _, f := range strings.Split(*vecStr, ",") {
				if f = strings.TrimSpace(f); f != "" && f != "-" {
					n, err := strconv.ParseInt(f, 10, 64)
					if err != nil {
						fmt.Fprintln(os.Stderr, "bad -vec:", err)
						os.Exit(2)
					}
					cfg.SingleVec = append(cfg.SingleVec, n)
				}
			}
		}
		hr := Explore(env, h, cfg)
		o.Results = append(o.Results, hr)
		fmt.Fprintf(os.Stderr, "%s: paths=%d done=%d aborted=%v oblig=%d discharged=%d trivial=%d failures=%d sat/unsat/unk=%d/%d/%d solver=%.1fs wall=%.1fs%s\n",
			h, hr.Paths, hr.PathsDone, hr.Aborted, hr.Obligations, hr.Discharged, hr.TrivialOK, len(hr.Failures),
			hr.Sat, hr.Unsat, hr.Unknown, hr.SolverSeconds, hr.WallSeconds, map[bool]string{true: " TRUNCATED", false: ""}[hr.Truncated])
		for _, e := range hr.EngineErrors {
			fmt.Fprintln(os.Stderr, "  engine error:", e)
		}
		for _, e := range hr.AbortReasons {
			fmt.Fprintln(os.Stderr, "  abort:", e)
		}
		for _, e := range hr.SolverErrors {
			fmt.Fprintln(os.Stderr, "  solver error:", e)
		}
		for k, n := range hr.FailureCount {
			fmt.Fprintf(os.Stderr, "  FAIL %s x%d\n", k, n)
		}
	}
	writeOut(o, *out)
}

func writeOut(o *Output, path string) {
	data, _ := json.MarshalIndent(o, "", " ")
	if path == "" {
		return
	}
	os.WriteFile(path, data, 0o644)
}
