package main

// Interpreter threads (goroutines of the interpreted program), the controlled
// scheduler, channels, select, mutexes, and the happens-before race check.

import (
	"fmt"
	"go/token"
	"go/types"
	"strings"

	"golang.org/x/tools/go/ssa"
)

type mutexState struct {
	writer  bool
	readers int
	vc      []int // release clock
}

func (m *Machine) newThread(name string, body func(th *Thread)) *Thread {
	th := &Thread{id: len(m.threads), m: m, resume: make(chan struct{}), name: name}
	m.threads = append(m.threads, th)
	// vector clock
	th.vc = make([]int, len(m.threads))
	if m.cur != nil {
		copy(th.vc, m.cur.vc)
		m.cur.tick()
	}
	th.vc = append(th.vc[:th.id], 1)
	go func() {
		<-th.resume
		var ev schedEvent
		ev.th = th
		ev.kind = "done"
		defer func() {
			if r := recover(); r != nil {
				switch r := r.(type) {
				case abortRun:
					ev.kind = "abort"
					ev.val = r
				case targetPanic:
					ev.kind = "panic"
					ev.val = r
				default:
					ev.kind = "engine"
					ev.val = fmt.Sprintf("%v\n%s", r, goStack())
				}
			}
			th.state = thDone
			m.sched <- ev
		}()
		if m.aborting {
			panic(abortRun{"killed", "path ended"})
		}
		body(th)
	}()
	return th
}

func (th *Thread) tick() {
	for len(th.vc) <= th.id {
		th.vc = append(th.vc, 0)
	}
	th.vc[th.id]++
}

func vcJoin(a, b []int) []int {
	if len(b) > len(a) {
		a = append(a, make([]int, len(b)-len(a))...)
	}
	for i, v := range b {
		if v > a[i] {
			a[i] = v
		}
	}
	return a
}

func vcLeq(a, b []int) bool {
	for i, v := range a {
		if v == 0 {
			continue
		}
		if i >= len(b) || v > b[i] {
			return false
		}
	}
	return true
}

// acquire/release edges for happens-before.
func (th *Thread) hbAcquire(vc []int) {
	if vc != nil {
		th.vc = vcJoin(th.vc, vc)
	}
}
func (th *Thread) hbRelease(dst *[]int) {
	*dst = vcJoin(append([]int{}, (*dst)...), th.vc)
	th.tick()
}

func (th *Thread) spawn(fn Value, args []Value, pos token.Pos) {
	m := th.m
	th.schedPoint("go")
	nt := m.newThread(fmt.Sprintf("go@%s", m.prog.Fset.Position(pos)), func(t *Thread) {
		t.call(nil, pos, fn, args)
	})
	_ = nt
}

// yield hands control to the scheduler and waits to be resumed.
func (th *Thread) yield() {
	m := th.m
	m.sched <- schedEvent{th: th, kind: "yield"}
	<-th.resume
	if m.aborting {
		panic(abortRun{"killed", "path ended"})
	}
	m.cur = th
}

// schedPoint is called before every synchronisation operation.
func (th *Thread) schedPoint(desc string) {
	m := th.m
	if !m.explore {
		return
	}
	live := 0
	for _, t := range m.threads {
		if t.state != thDone {
			live++
		}
	}
	if live <= 1 {
		return
	}
	if len(m.schedOnly) > 0 && !th.inSchedScope() {
		return
	}
	th.waitDesc = desc
	th.yield()
}

// block suspends the thread until cond holds.
func (th *Thread) block(desc string, cond func() bool) {
	for !cond() {
		th.state = thBlocked
		th.waitCond = cond
		th.waitDesc = desc
		th.yield()
	}
	th.state = thRunnable
	th.waitCond = nil
}

func (t *Thread) enabled() bool {
	switch t.state {
	case thRunnable:
		return true
	case thBlocked:
		return t.waitCond != nil && t.waitCond()
	}
	return false
}

// runScheduler drives the threads until the main thread is done.
func (m *Machine) runScheduler(main *Thread) {
	next := main
	spin := map[*Thread]int{}
	spinSince := map[*Thread]int{}
	for {
		m.cur = next
		next.resume <- struct{}{}
		ev := <-m.sched
		switch ev.kind {
		case "abort":
			m.killAll()
			panic(ev.val.(abortRun))
		case "engine":
			m.killAll()
			panic(fmt.Sprint("engine error: ", ev.val))
		case "panic":
			tp := ev.val.(targetPanic)
			m.cur = ev.th
			m.reportViolation("panic", tp.desc, nil, "uncaught panic in thread "+ev.th.name)
			m.killAll()
			panic(abortRun{"panic", tp.desc})
		case "done":
			if ev.th == main {
				m.killAll()
				return
			}
		}
		// choose next thread
		cur := ev.th
		var enabled []*Thread
		for _, t := range m.threads {
			if t != cur && t.enabled() {
				enabled = append(enabled, t)
			}
		}
		curEnabled := cur.state != thDone && cur.enabled()
		spinning := cur.state == thRunnable && cur.waitDesc == "spin"
		if spinning {
			spin[cur]++
			spinSince[cur]++
			if spin[cur] > m.cfg.LoopBound {
				m.killAll()
				panic(abortRun{"unwind", "spin bound exceeded in thread " + cur.name})
			}
			// livelock: every thread that can run is in a wait loop (Gosched / Sleep) and has
			// gone round at least twice since any other thread last made a step - nothing can
			// change what they are waiting for
			// (counted per thread since any *other* thread last made a step; 50 rounds, so
			// that a short bounded retry loop is not mistaken for one)
			stuck := spinSince[cur] >= 50
			for _, t := range enabled {
				if !(t.state == thRunnable && t.waitDesc == "spin" && spinSince[t] >= 50) {
					stuck = false
				}
			}
			if stuck {
				desc := "[" + cur.name + " spins] "
				for _, t := range m.threads {
					if t != cur && t.state != thDone {
						desc += fmt.Sprintf("[%s %s] ", t.name, t.waitDesc)
					}
				}
				m.cur = cur
				m.reportViolation("deadlock", "livelock: a wait loop can never end", nil, desc)
				m.killAll()
				panic(abortRun{"deadlock", desc})
			}
		} else {
			for t := range spinSince {
				if t != cur {
					delete(spinSince, t)
				}
			}
		}
		var options []*Thread
		switch {
		case curEnabled && !spinning:
			options = append(options, cur)
			if m.explore && m.preempts < m.maxPreempt {
				options = append(options, enabled...)
			}
		case curEnabled && spinning:
			if len(enabled) > 0 {
				options = enabled
			} else {
				options = []*Thread{cur}
			}
		default:
			options = enabled
		}
		if len(options) == 0 {
			// deadlock
			desc := ""
			for _, t := range m.threads {
				if t.state == thBlocked {
					desc += fmt.Sprintf("[%s blocked on %s] ", t.name, t.waitDesc)
				}
			}
			m.cur = cur
			m.reportViolation("deadlock", "deadlock", nil, desc)
			m.killAll()
			panic(abortRun{"deadlock", desc})
		}
		k := 0
		if len(options) > 1 {
			if m.explore {
				k = m.decideN(len(options))
			}
		}
		next = options[k]
		if m.explore && next != cur && curEnabled && !spinning {
			m.preempts++
		}
		if m.explore {
			m.schedLog = append(m.schedLog, fmt.Sprintf("t%d:%s", next.id, next.waitDesc))
		}
		next.waitDesc = ""
	}
}

func (m *Machine) killAll() {
	m.aborting = true
	for _, t := range m.threads {
		if t.state != thDone {
			t.resume <- struct{}{}
			<-m.sched
		}
	}
}

func (th *Thread) spinYield() {
	th.waitDesc = "spin"
	th.state = thRunnable
	th.yield()
}

// ---- channels ----------------------------------------------------------------------------

func (th *Thread) chanSend(ch *Chan, v Value) {
	th.schedPoint("chan send")
	if ch == nil {
		th.block("send on nil channel", func() bool { return false })
	}
	if ch.closed {
		th.rtPanicPlain("send on closed channel")
	}
	if ch.cap == 0 {
		th.m.unsupported("send on unbuffered channel")
	}
	th.block("chan send (full)", func() bool { return ch.closed || len(ch.buf) < ch.cap })
	if ch.closed {
		th.rtPanicPlain("send on closed channel")
	}
	th.tick()
	ch.buf = append(ch.buf, chanItem{copyVal(v), append([]int{}, th.vc...)})
}

type chanItem struct {
	v  Value
	vc []int
}

func (th *Thread) rtPanicPlain(msg string) {
	panic(targetPanic{v: th.m.runtimeError(msg), desc: "panic: " + msg})
}

func (th *Thread) chanRecv(ch *Chan) (Value, bool) {
	th.schedPoint("chan recv")
	if ch == nil {
		th.block("recv on nil channel", func() bool { return false })
	}
	th.block("chan recv (empty)", func() bool { return ch.closed || len(ch.buf) > 0 })
	if len(ch.buf) > 0 {
		it := ch.buf[0].(chanItem)
		ch.buf = ch.buf[1:]
		th.hbAcquire(it.vc)
		return it.v, true
	}
	th.hbAcquire(ch.closeVC)
	return th.m.zero(ch.elemT), false
}

func (th *Thread) chanClose(ch *Chan) {
	th.schedPoint("chan close")
	if ch == nil {
		th.rtPanicPlain("close of nil channel")
	}
	if ch.closed {
		th.rtPanicPlain("close of closed channel")
	}
	ch.closed = true
	th.hbRelease(&ch.closeVC)
}

func (th *Thread) selectStmt(fr *Frame, instr *ssa.Select) Value {
	m := th.m
	th.schedPoint("select")
	type sc struct {
		ch   *Chan
		send bool
		val  Value
	}
	var cases []sc
	for _, st := range instr.States {
		c := sc{ch: fr.get(st.Chan).(*Chan), send: st.Dir == types.SendOnly}
		if c.send {
			c.val = fr.get(st.Send)
		}
		cases = append(cases, c)
	}
	ready := func() []int {
		var r []int
		for i, c := range cases {
			if c.ch == nil {
				continue
			}
			if c.send {
				if c.ch.closed || (c.ch.cap > 0 && len(c.ch.buf) < c.ch.cap) {
					r = append(r, i)
				}
			} else if c.ch.closed || len(c.ch.buf) > 0 {
				r = append(r, i)
			}
		}
		return r
	}
	r := ready()
	chosen := -1
	if len(r) == 0 {
		if instr.Blocking {
			th.block("select", func() bool { return len(ready()) > 0 })
			r = ready()
		}
	}
	if len(r) > 0 {
		k := 0
		if len(r) > 1 && (m.explore || m.selectFork) {
			k = m.decideN(len(r))
		}
		chosen = r[k]
	}
	res := Tuple{m.ts.Const(64, uint64(int64(chosen))), m.ts.Bool(false)}
	var recvVal Value
	recvOk := false
	if chosen >= 0 {
		c := cases[chosen]
		if c.send {
			if c.ch.closed {
				th.rtPanicPlain("send on closed channel")
			}
			th.tick()
			c.ch.buf = append(c.ch.buf, chanItem{copyVal(c.val), append([]int{}, th.vc...)})
		} else if len(c.ch.buf) > 0 {
			it := c.ch.buf[0].(chanItem)
			c.ch.buf = c.ch.buf[1:]
			th.hbAcquire(it.vc)
			recvVal, recvOk = it.v, true
		} else {
			th.hbAcquire(c.ch.closeVC)
		}
	}
	res[1] = m.ts.Bool(recvOk)
	for i, st := range instr.States {
		if st.Dir == types.RecvOnly {
			if i == chosen && recvOk {
				res = append(res, recvVal)
			} else {
				res = append(res, m.zero(st.Chan.Type().Underlying().(*types.Chan).Elem()))
			}
		}
	}
	return res
}

// ---- race detection (happens-before over sync operations) -------------------------------

type shadow struct {
	wTh  int
	wClk int
	wPos string
	rClk []int // per-thread read clocks
	rPos []string
}

func (th *Thread) onRead(p *Value) {
	m := th.m
	if !m.raceCheck || len(m.threads) < 2 {
		return
	}
	sh := m.shadow[p]
	if sh == nil {
		sh = &shadow{wTh: -1}
		m.shadow[p] = sh
	}
	if sh.wTh >= 0 && sh.wTh != th.id {
		if sh.wTh >= len(th.vc) || th.vc[sh.wTh] < sh.wClk {
			m.reportRace(th, "read", sh.wPos)
		}
	}
	for len(sh.rClk) <= th.id {
		sh.rClk = append(sh.rClk, 0)
		sh.rPos = append(sh.rPos, "")
	}
	sh.rClk[th.id] = th.clock()
	sh.rPos[th.id] = th.fr.where()
}

func (th *Thread) clock() int {
	if th.id < len(th.vc) {
		return th.vc[th.id]
	}
	return 0
}

func (th *Thread) onWrite(p *Value) {
	m := th.m
	if !m.raceCheck || len(m.threads) < 2 {
		return
	}
	sh := m.shadow[p]
	if sh == nil {
		sh = &shadow{wTh: -1}
		m.shadow[p] = sh
	}
	if sh.wTh >= 0 && sh.wTh != th.id {
		if sh.wTh >= len(th.vc) || th.vc[sh.wTh] < sh.wClk {
			m.reportRace(th, "write", sh.wPos)
		}
	}
	for i, c := range sh.rClk {
		if i != th.id && c > 0 {
			if i >= len(th.vc) || th.vc[i] < c {
				m.reportRace(th, "write", sh.rPos[i])
			}
		}
	}
	sh.wTh = th.id
	sh.wClk = th.clock()
	sh.wPos = th.fr.where()
	sh.rClk = nil
	sh.rPos = nil
}

func (th *Thread) onReadMap(mp *Map) {
	if !th.m.raceCheck {
		return
	}
	th.onRead(mp.shadowCell())
}
func (th *Thread) onWriteMap(mp *Map) {
	if !th.m.raceCheck {
		return
	}
	th.onWrite(mp.shadowCell())
}

func (mp *Map) shadowCell() *Value {
	if mp.cell == nil {
		mp.cell = new(Value)
	}
	return mp.cell
}

func (m *Machine) reportRace(th *Thread, kind, other string) {
	if m.raceReported {
		return
	}
	m.raceReported = true
	label := "data race"
	m.reportViolation("race", label, nil, fmt.Sprintf("%s at %s conflicts with access at %s", kind, th.fr.where(), other))
}

// inSchedScope: with verifrt.ExploreOnly(prefixes...) a synchronisation operation is a
// preemption point only if the innermost function of the module under test (or of the
// harness) on the call stack belongs to a package whose path ends with one of the suffixes.
func (th *Thread) inSchedScope() bool {
	m := th.m
	for f := th.fr; f != nil; f = f.caller {
		if f.fn == nil || f.fn.Pkg == nil {
			continue
		}
		path := f.fn.Pkg.Pkg.Path()
		if !strings.HasPrefix(path, m.env.modulePath) {
			continue
		}
		for _, suf := range m.schedOnly {
			if strings.HasSuffix(path, suf) {
				return true
			}
		}
		return false
	}
	return true
}
