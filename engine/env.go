package main

// Loading of /repo (with the harness overlay) into SSA form.

import (
	"encoding/json"
	"fmt"
	"go/types"
	"os"
	"strings"
	"time"

	"golang.org/x/tools/go/packages"
	"golang.org/x/tools/go/ssa"
	"golang.org/x/tools/go/ssa/ssautil"
)

type timeDuration = time.Duration

type Env struct {
	prog            *ssa.Program
	pkgs            []*ssa.Package
	mainPkg         *ssa.Package
	errorStringPtrT types.Type
	runtimeErrT     types.Type
	gomaxprocs      int
	modulePath      string
	initAllow       map[string]bool
	loadSeconds     float64
	// usesBufCap: some function of the module under test calls (*bytes.Buffer).Grow, Available or
	// Cap; only then is the capacity of abstract buffers tracked (it costs a variable per write)
	usesBufCap bool
}

var stdInitAllow = []string{
	"io", "bytes", "sort", "unicode/utf8", "encoding/binary", "context",
	"go.uber.org/atomic",
}

func (e *Env) initAllowed(p *ssa.Package) bool {
	path := p.Pkg.Path()
	if strings.HasPrefix(path, e.modulePath) {
		return true
	}
	return e.initAllow[path]
}

// LoadEnv loads the package in dir (import path pattern) with an overlay.
func LoadEnv(dir, pattern string, overlayFile string, tags string) (*Env, error) {
	t0 := time.Now()
	overlay := map[string][]byte{}
	if overlayFile != "" {
		data, err := os.ReadFile(overlayFile)
		if err != nil {
			return nil, err
		}
		var ov struct{ Replace map[string]string }
		if err := json.Unmarshal(data, &ov); err != nil {
			return nil, err
		}
		for virt, real := range ov.Replace {
			b, err := os.ReadFile(real)
			if err != nil {
				return nil, err
			}
			overlay[virt] = b
		}
	}
	cfg := &packages.Config{
		Mode:       packages.LoadAllSyntax,
		Dir:        dir,
		Overlay:    overlay,
		BuildFlags: []string{"-tags", tags},
		Env:        append(os.Environ(), "GOFLAGS=-mod=mod", "GOPROXY=off", "GOSUMDB=off", "GOTOOLCHAIN=local"),
	}
	initial, err := packages.Load(cfg, pattern)
	if err != nil {
		return nil, err
	}
	nerr := 0
	packages.Visit(initial, nil, func(p *packages.Package) {
		for _, e := range p.Errors {
			fmt.Fprintln(os.Stderr, "load error:", e)
			nerr++
		}
	})
	if nerr > 0 {
		return nil, fmt.Errorf("%d package load errors", nerr)
	}
	prog, pkgs := ssautil.AllPackages(initial, ssa.InstantiateGenerics|ssa.SanityCheckFunctions&0)
	prog.Build()
	e := &Env{prog: prog, pkgs: pkgs, gomaxprocs: 1, initAllow: map[string]bool{}}
	for _, s := range stdInitAllow {
		e.initAllow[s] = true
	}
	for _, p := range pkgs {
		if p != nil && p.Pkg.Path() == initial[0].PkgPath {
			e.mainPkg = p
		}
	}
	if e.mainPkg == nil {
		return nil, fmt.Errorf("package %s not found after load", pattern)
	}
	e.modulePath = "github.com/uber-go/tally/v4"
	if ep := prog.ImportedPackage("errors"); ep != nil {
		e.errorStringPtrT = types.NewPointer(ep.Type("errorString").Type())
	} else {
		return nil, fmt.Errorf("package errors not loaded")
	}
	e.runtimeErrT = e.errorStringPtrT
	for _, p := range pkgs {
		if p == nil || !strings.HasPrefix(p.Pkg.Path(), e.modulePath) {
			continue
		}
		for _, mem := range p.Members {
			var fns []*ssa.Function
			switch mm := mem.(type) {
			case *ssa.Function:
				fns = append(fns, mm)
			case *ssa.Type:
				for _, T := range []types.Type{mm.Type(), types.NewPointer(mm.Type())} {
					ms := prog.MethodSets.MethodSet(T)
					for i := 0; i < ms.Len(); i++ {
						if f := prog.MethodValue(ms.At(i)); f != nil {
							fns = append(fns, f)
						}
					}
				}
			}
			for len(fns) > 0 {
				f := fns[0]
				fns = fns[1:]
				fns = append(fns, f.AnonFuncs...)
				for _, b := range f.Blocks {
					for _, in := range b.Instrs {
						if c, ok := in.(ssa.CallInstruction); ok {
							if callee := c.Common().StaticCallee(); callee != nil {
								switch callee.String() {
								case "(*bytes.Buffer).Grow", "(*bytes.Buffer).Available", "(*bytes.Buffer).Cap":
									e.usesBufCap = true
								}
							}
						}
					}
				}
			}
		}
	}
	e.loadSeconds = time.Since(t0).Seconds()
	return e, nil
}
