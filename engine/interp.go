package main

// Symbolic interpreter for go/ssa.  One Machine executes one path (one
// decision vector) of one harness; exploration re-runs the harness.

import (
	"fmt"
	"go/constant"
	"go/token"
	"go/types"
	"os"
	"sort"
	"strings"

	"golang.org/x/tools/go/ssa"
)

// abortRun ends the current path (not a property violation).
type abortRun struct {
	kind   string // infeasible | assume | budget | unsupported | killed | unwind
	reason string
}

// targetPanic is a Go panic of the interpreted program.
type targetPanic struct {
	v    Value
	desc string
}

type deferred struct {
	fn   Value
	args []Value
	pos  token.Pos
}

type Frame struct {
	th               *Thread
	caller           *Frame
	fn               *ssa.Function
	block, prevBlock *ssa.BasicBlock
	env              map[ssa.Value]Value
	defers           []*deferred
	result           Value
	panicking        bool
	panicVal         interface{}
	loopCount        map[*ssa.BasicBlock]int
	curInstr         ssa.Instruction
}

type Failure struct {
	Label   string            `json:"label"`
	Class   string            `json:"class"`
	Kind    string            `json:"kind"` // assert | panic | deadlock | race
	Model   map[string]uint64 `json:"model"`
	Choices map[string]int64  `json:"choices"`
	Vec     []int64           `json:"vec"`
	Where   string            `json:"where"`
	Detail  string            `json:"detail"`
	Sched   []string          `json:"sched,omitempty"`
}

type EmitRec struct {
	Tag  string
	Vals []Value
}

type PathResult struct {
	Vec               []int64
	Status            string // done | aborted:<kind>
	Reason            string
	Failures          []*Failure
	Reached           []string
	Obligations       int // assertions checked with a non-constant formula
	Discharged        int
	TrivialOK         int // assertions whose condition folded to true
	Inconclusive      []string
	NewVecs           [][]int64
	Decisions         int
	Steps             int
	Funcs             map[string]bool
	Assumes           []string
	Witness           map[string]uint64 // a model of the path condition (for translator validation)
	WitChoices        map[string]int64
	EmitEval          []string // emit log evaluated under Witness
	Nontrivial        bool
	EngineErr         string
	MapOrderDependent bool
	UnknownBranches   int
}

type Machine struct {
	prog    *ssa.Program
	env     *Env
	ts      *TermStore
	solver  *Solver
	globals map[*ssa.Global]*Value
	cfg     *RunConfig

	vec     []int64
	pos     int
	newVecs [][]int64
	pc      []*Term

	res *PathResult

	steps       int
	varCount    map[string]int
	choices     map[string]int64
	classes     []classDef
	emits       []EmitRec
	mapIDs      int
	chanIDs     int
	initDone    map[*ssa.Package]bool
	pool        map[*Value][]Value
	mutexes     map[*Value]*mutexState
	hashCalls   []hashCall
	permuteMaps int
	rotateMaps  bool

	// threads
	threads    []*Thread
	cur        *Thread
	sched      chan schedEvent
	explore    bool
	maxPreempt int
	preempts   int
	schedLog   []string
	aborting   bool
	nowCount   int
	lastNow    *Term
	netLog     []Value
	known      map[string]bool // label|class entries that are known findings

	poolVC         map[*Value][]int
	wgStates       map[*Value]*wgState
	hashBuf        map[*Value][]*Term
	atomVC         map[*Value][]int
	tickers        map[*Value]*tickerState
	shadow         map[*Value]*shadow
	maxTicks       int
	raceCheck      bool
	raceReported   bool
	selectFork     bool
	eventMode      *eventRecorder
	model          map[string]uint64
	modelMemo      map[*Term]uint64
	noModelGuide   bool
	decided        map[*Term]bool
	sharedLog      []*Term
	absBuf         bool
	absBufs        map[*Value]Str
	absCaps        map[*Value]*Term
	udps           map[*Value]*udpState
	sinks          map[string][]*udpState
	sinkCount      int
	hashInjective  bool
	concreteHashes bool
	divSplit       int
	divMemo        map[*Term]divRes
	opaqueHash     map[string]*Term
	schedOnly      []string
	promVecs       map[*Value]*promVec
	promMetrics    map[*Value]*promMetric
	promRegistered map[*Value]map[string]bool
	syncMaps       map[*Value]*Map
	builders       map[*Value]Str
	renderSplit    bool
}

type classDef struct {
	name string
	cond *Term
}

type hashCall struct {
	fn    string
	bytes []*Term
	out   *Term
}

type RunConfig struct {
	MaxSteps        int
	LoopBound       int
	SolverMs        int
	BranchOneShotMs int // same retry for undecided branch-feasibility queries (0 = off)
	OneShotMs       int // cap of the fresh-process retry of an obligation the incremental solver left unknown (0 = off)
	BranchMs        int
	Trace           bool
	CheckWitness    bool
}

func (m *Machine) unsupported(msg string) {
	where := ""
	if m.cur != nil && m.cur.fr != nil {
		where = " in " + m.cur.fr.stack()
	}
	panic(abortRun{"unsupported", msg + where})
}

func (fr *Frame) where() string {
	if fr == nil {
		return "?"
	}
	pos := token.NoPos
	if fr.curInstr != nil {
		pos = fr.curInstr.Pos()
	}
	s := fr.fn.String()
	if pos != token.NoPos {
		p := fr.fn.Prog.Fset.Position(pos)
		s += fmt.Sprintf(" (%s:%d)", shortFile(p.Filename), p.Line)
	}
	return s
}

func shortFile(f string) string {
	if i := strings.LastIndex(f, "/"); i >= 0 {
		j := strings.LastIndex(f[:i], "/")
		return f[j+1:]
	}
	return f
}

func (fr *Frame) stack() string {
	var sb strings.Builder
	for f := fr; f != nil; f = f.caller {
		sb.WriteString(f.where())
		sb.WriteString(" <- ")
		if sb.Len() > 600 {
			break
		}
	}
	return sb.String()
}

// ---- path condition and decisions -------------------------------------------

// modelEval evaluates c under a model of the current path condition.
func (m *Machine) modelEval(c *Term) (bool, bool) {
	if m.noModelGuide {
		return false, false
	}
	if m.model == nil {
		m.solver.SetTimeout(m.cfg.BranchMs)
		if m.solver.Check(m.ts) != Sat {
			return false, false
		}
		m.model = m.modelNow()
		m.modelMemo = map[*Term]uint64{}
	}
	// variables not yet declared to the solver are unconstrained: default 0
	v, ok := c.evalDefault(m.model, m.modelMemo)
	if !ok {
		return false, false
	}
	return v == 1, true
}

func (m *Machine) assume(t *Term) {
	if t.IsTrue() {
		return
	}
	if m.model != nil {
		if v, ok := t.evalDefault(m.model, m.modelMemo); !ok || v != 1 {
			m.model = nil
		}
	}
	m.pc = append(m.pc, t)
	m.solver.Assert(m.ts, t)
}

func (m *Machine) check(extra ...*Term) SatResult {
	m.solver.SetTimeout(m.incrementalCap())
	r := m.solver.Check(m.ts, extra...)
	if r == Sat {
		m.solver.Done()
	}
	if r == Unknown && m.cfg.OneShotMs > 0 {
		r, _ = m.solver.OneShot(m.ts, m.cfg.OneShotMs, nil, extra...)
	}
	return r
}

func (m *Machine) checkBranch(extra ...*Term) SatResult {
	m.solver.SetTimeout(m.cfg.BranchMs)
	r := m.solver.Check(m.ts, extra...)
	if r == Sat {
		m.solver.Done()
	}
	if r == Unknown && m.cfg.BranchOneShotMs > 0 {
		// an undecided branch would be explored as if feasible; a fresh non-incremental
		// process often decides it (floating point) and saves the bogus paths
		r, _ = m.solver.OneShot(m.ts, m.cfg.BranchOneShotMs, nil, extra...)
	}
	return r
}

// decide forks on a symbolic condition.
func (m *Machine) decide(c *Term) bool {
	if c.IsConst() {
		return c.Val == 1
	}
	if v, ok := m.decided[c]; ok {
		return v
	}
	m.res.Decisions++
	m.res.Nontrivial = true
	if m.pos < len(m.vec) {
		d := m.vec[m.pos]
		m.pos++
		if d == 1 {
			m.assume(c)
		} else {
			m.assume(m.ts.Not(c))
		}
		m.remember(c, d == 1)
		return d == 1
	}
	nc := m.ts.Not(c)
	var rt, rf SatResult
	// model-guided: the side the current model satisfies is feasible without a query
	if mv, ok := m.modelEval(c); ok {
		if mv {
			rt = Sat
			rf = m.checkBranch(nc)
		} else {
			rf = Sat
			rt = m.checkBranch(c)
		}
	} else {
		rt = m.checkBranch(c)
		if rt == Unsat {
			rf = Sat
		} else {
			rf = m.checkBranch(nc)
		}
	}
	// an undecided side is kept (explored as if feasible): sound for "holds" verdicts,
	// any counterexample found later must still replay natively
	if rt == Unknown || rf == Unknown {
		m.res.UnknownBranches++
	}
	if rt == Unsat && rf == Unsat {
		panic(abortRun{"infeasible", "both sides of a branch are infeasible"})
	}
	take := rt != Unsat
	if rt != Unsat && rf != Unsat {
		if mv, ok := m.modelEval(c); ok && !mv {
			take = false
		}
		altv := int64(0)
		if !take {
			altv = 1
		}
		alt := append(append([]int64{}, m.vec[:m.pos]...), altv)
		m.newVecs = append(m.newVecs, alt)
	}
	d := int64(0)
	if take {
		d = 1
	}
	m.vec = append(m.vec[:m.pos], d)
	m.pos++
	if take {
		m.assume(c)
	} else {
		m.assume(nc)
	}
	m.remember(c, take)
	return take
}

func (m *Machine) remember(c *Term, v bool) {
	if m.decided == nil {
		m.decided = map[*Term]bool{}
	}
	m.decided[c] = v
	m.decided[m.ts.Not(c)] = !v
}

// decideN is an n-way non-deterministic choice (all alternatives explored).
func (m *Machine) decideN(n int) int {
	if n <= 1 {
		return 0
	}
	m.res.Decisions++
	if m.pos < len(m.vec) {
		d := m.vec[m.pos]
		m.pos++
		return int(d)
	}
	for k := 1; k < n; k++ {
		alt := append(append([]int64{}, m.vec[:m.pos]...), int64(k))
		m.newVecs = append(m.newVecs, alt)
	}
	m.vec = append(m.vec[:m.pos], 0)
	m.pos++
	return 0
}

// concretize case-splits a term over its feasible values.
func (m *Machine) concretize(t *Term) uint64 {
	for {
		if t.IsConst() {
			return t.Val
		}
		var cand uint64
		if m.pos < len(m.vec) {
			cand = uint64(m.vec[m.pos])
			m.pos++
		} else {
			r := m.solver.Check(m.ts)
			if r != Sat {
				panic(abortRun{"infeasible", "path condition not satisfiable while concretizing"})
			}
			// ask the solver for the value of t
			mod := m.evalInSolver(t)
			cand = mod
			m.vec = append(m.vec[:m.pos], int64(cand))
			m.pos++
		}
		if m.decide(m.ts.Eq(t, m.ts.Const(t.W, cand))) {
			return cand
		}
	}
}

func (m *Machine) evalInSolver(t *Term) uint64 {
	m.solver.define(m.ts, t)
	m.solver.send("(get-value (" + t.ref() + "))")
	txt := m.solver.readSexp()
	// ((n12 #x...))
	i := strings.LastIndex(txt, " ")
	v := strings.TrimRight(strings.TrimSpace(txt[i+1:]), ")")
	if strings.HasPrefix(txt[i+1:], "bv") { // (_ bv5 64) form
		j := strings.Index(txt, "(_ bv")
		v = txt[j:]
	}
	u, ok := parseValue(v)
	if !ok {
		panic(abortRun{"unsupported", "cannot parse solver value " + txt})
	}
	return u
}

func (m *Machine) asInt(v Value) int64 {
	t := v.(*Term)
	if t.IsConst() {
		return t.Signed()
	}
	return signExt(m.concretize(t), t.W)
}

// incrementalCap: with the one-shot retry available the incremental attempt at an obligation
// is cut short (a third of the cap), the retry gets the full cap.
func (m *Machine) incrementalCap() int {
	if m.cfg.OneShotMs > 0 && m.cfg.SolverMs > 15000 {
		return m.cfg.SolverMs / 3
	}
	return m.cfg.SolverMs
}

// freshVar declares a named input.
func (m *Machine) freshVar(name string, w int) *Term {
	k := m.varCount[name]
	m.varCount[name] = k + 1
	return m.ts.Var(fmt.Sprintf("%s#%d", name, k), w)
}

// ---- failures ---------------------------------------------------------------------

func (m *Machine) modelNow() map[string]uint64 {
	return m.solver.Model(m.ts.vars)
}

// recordFailure is called when PC ∧ neg is satisfiable (neg may be nil: PC itself).
func (m *Machine) reportViolation(kind, label string, neg *Term, detail string) {
	where := ""
	if m.cur != nil && m.cur.fr != nil {
		where = m.cur.fr.stack()
	}
	mk := func(class string, extra ...*Term) bool {
		r := m.solver.Check(m.ts, extra...)
		var model map[string]uint64
		if r == Sat {
			model = m.modelNow()
			m.solver.Done()
		} else if r == Unknown && m.cfg.OneShotMs > 0 {
			r, model = m.solver.OneShot(m.ts, m.cfg.OneShotMs, m.ts.vars, extra...)
		}
		if r != Sat {
			if r == Unknown {
				m.res.Inconclusive = append(m.res.Inconclusive, "violation query unknown for "+label)
			}
			return false
		}
		ch := map[string]int64{}
		for k, v := range m.choices {
			ch[k] = v
		}
		f := &Failure{Label: label, Class: class, Kind: kind, Model: model, Choices: ch,
			Vec: append([]int64{}, m.vec[:m.pos]...), Where: where, Detail: detail,
			Sched: append([]string{}, m.schedLog...)}
		m.res.Failures = append(m.res.Failures, f)
		return true
	}
	var base []*Term
	if neg != nil {
		base = append(base, neg)
	}
	if len(m.classes) == 0 {
		if !mk("", base...) && neg == nil {
			// PC must be sat
		}
		return
	}
	// outside every class
	out := base
	for _, c := range m.classes {
		out = append(out, m.ts.Not(c.cond))
	}
	mk("", out...)
	for _, c := range m.classes {
		mk(c.name, append(append([]*Term{}, base...), c.cond)...)
	}
}

// assert checks a harness assertion.
func (m *Machine) assert(label string, c *Term) {
	if c.IsTrue() {
		m.res.TrivialOK++
		return
	}
	m.res.Obligations++
	m.res.Nontrivial = true
	neg := m.ts.Not(c)
	if c.IsFalse() {
		m.reportViolation("assert", label, nil, "condition is constant false")
		panic(abortRun{"assume", "assertion constant false"})
	}
	r := m.check(neg)
	switch r {
	case Unsat:
		m.res.Discharged++
	case Sat:
		m.reportViolation("assert", label, neg, "")
		// continue under the assumption that it held
		if m.check(c) == Unsat {
			panic(abortRun{"assume", "assertion fails on every model of this path"})
		}
		m.assume(c)
	default:
		m.res.Inconclusive = append(m.res.Inconclusive, "assertion "+label+": solver unknown")
		m.assume(c)
	}
}

// ---- threads -----------------------------------------------------------------------

type schedEvent struct {
	th   *Thread
	kind string // yield | done | abort | panic
	val  interface{}
}

type Thread struct {
	id       int
	m        *Machine
	resume   chan struct{}
	state    int // 0 runnable, 1 blocked, 2 done
	waitCond func() bool
	waitDesc string
	fr       *Frame
	name     string
	vc       []int
}

const (
	thRunnable = iota
	thBlocked
	thDone
)

// ---- calls ---------------------------------------------------------------------------

func (th *Thread) call(caller *Frame, pos token.Pos, fnv Value, args []Value) Value {
	m := th.m
	switch fn := fnv.(type) {
	case *Closure:
		if fn == nil {
			th.rtPanic("invalid memory address or nil pointer dereference (call of nil func)")
		}
		if fn.Native != nil {
			return fn.Native(th, args)
		}
		if fn.Builtin != nil {
			return th.callBuiltin(caller, fn.Builtin, args, nil)
		}
		return th.callSSA(caller, pos, fn.Fn, args, fn.Env)
	case *ssa.Function:
		return th.callSSA(caller, pos, fn, args, nil)
	}
	m.unsupported(fmt.Sprintf("call of %T", fnv))
	return nil
}

func (th *Thread) callSSA(caller *Frame, pos token.Pos, fn *ssa.Function, args []Value, env []Value) Value {
	m := th.m
	name := fn.String()
	if fn.Synthetic == "" || true {
		if m.absBuf {
			if h, ok := absBufIntrinsics[name]; ok {
				saved := th.fr
				r := h(th, fn, args)
				th.fr = saved
				return r
			}
		}
		if h, ok := intrinsics[name]; ok {
			saved := th.fr
			r := h(th, fn, args)
			th.fr = saved
			return r
		}
	}
	if fn.Name() == "init" && fn.Pkg != nil && fn.Synthetic == "package initializer" {
		if !m.env.initAllowed(fn.Pkg) {
			return nil
		}
	}
	if fn.Blocks == nil {
		if h := genericIntrinsic(name); h != nil {
			return h(th, fn, args)
		}
		m.unsupported("no code for function " + name)
	}
	if fn.TypeParams().Len() > 0 && len(fn.TypeArgs()) == 0 {
		m.unsupported("uninstantiated generic " + name)
	}
	if m.res.Funcs != nil && fn.Pkg != nil {
		m.res.Funcs[name] = true
	} else if m.res.Funcs != nil {
		m.res.Funcs[name] = true
	}
	fr := &Frame{th: th, caller: caller, fn: fn, env: make(map[ssa.Value]Value, 16)}
	depth := 0
	for f := caller; f != nil; f = f.caller {
		depth++
	}
	if depth > 400 {
		panic(abortRun{"budget", "call depth exceeded in " + name})
	}
	fr.block = fn.Blocks[0]
	for _, l := range fn.Locals {
		cell := new(Value)
		*cell = m.zero(deref(l.Type()))
		fr.env[l] = cell
	}
	if len(args) != len(fn.Params) {
		m.unsupported(fmt.Sprintf("arity mismatch calling %s: %d args for %d params", name, len(args), len(fn.Params)))
	}
	for i, p := range fn.Params {
		fr.env[p] = args[i]
	}
	for i, fv := range fn.FreeVars {
		fr.env[fv] = env[i]
	}
	saved := th.fr
	th.fr = fr
	for fr.block != nil {
		th.runFrame(fr)
	}
	th.fr = saved
	return fr.result
}

func (th *Thread) runFrame(fr *Frame) {
	defer func() {
		if fr.block == nil {
			return
		}
		r := recover()
		if _, ok := r.(abortRun); ok {
			panic(r)
		}
		if _, ok := r.(targetPanic); !ok {
			// engine bug or Go runtime error inside the engine
			panic(r)
		}
		fr.panicking = true
		fr.panicVal = r
		th.fr = fr
		th.runDefers(fr)
		fr.block = fr.fn.Recover
		if fr.block == nil {
			// recovered, no named results: return zero value
			fr.result = th.zeroResult(fr.fn)
		}
	}()
	m := th.m
	for {
		// phis
		instrs := fr.block.Instrs
		n := 0
		if _, ok := instrs[0].(*ssa.Phi); ok {
			predIndex := -1
			for i, p := range fr.block.Preds {
				if p == fr.prevBlock {
					predIndex = i
					break
				}
			}
			var tmp []Value
			for _, in := range instrs {
				phi, ok := in.(*ssa.Phi)
				if !ok {
					break
				}
				tmp = append(tmp, fr.get(phi.Edges[predIndex]))
				n++
			}
			for i := 0; i < n; i++ {
				fr.env[instrs[i].(*ssa.Phi)] = tmp[i]
			}
		}
		jumped := false
		for _, instr := range instrs[n:] {
			m.steps++
			if m.steps > m.cfg.MaxSteps {
				panic(abortRun{"budget", "instruction budget exceeded"})
			}
			fr.curInstr = instr
			if m.cfg.Trace {
				if v, ok := instr.(ssa.Value); ok {
					fmt.Fprintf(os.Stderr, "[t%d] %s: %s = %s\n", th.id, fr.fn.Name(), v.Name(), instr)
				} else {
					fmt.Fprintf(os.Stderr, "[t%d] %s: %s\n", th.id, fr.fn.Name(), instr)
				}
			}
			switch th.visit(fr, instr) {
			case kReturn:
				return
			case kJump:
				jumped = true
			}
			if jumped {
				break
			}
		}
		if !jumped {
			m.unsupported("block fell through")
		}
		// loop bound (back edge heuristic: block index not increasing)
		if fr.block.Index <= fr.prevBlock.Index {
			if fr.loopCount == nil {
				fr.loopCount = map[*ssa.BasicBlock]int{}
			}
			fr.loopCount[fr.block]++
			if fr.loopCount[fr.block] > m.cfg.LoopBound {
				panic(abortRun{"unwind", fmt.Sprintf("loop bound %d exceeded in %s", m.cfg.LoopBound, fr.where())})
			}
		}
	}
}

func (th *Thread) zeroResult(fn *ssa.Function) Value {
	res := fn.Signature.Results()
	switch res.Len() {
	case 0:
		return nil
	case 1:
		return th.m.zero(res.At(0).Type())
	}
	return th.m.zero(res)
}

func (th *Thread) runDefers(fr *Frame) {
	for len(fr.defers) > 0 {
		d := fr.defers[len(fr.defers)-1]
		fr.defers = fr.defers[:len(fr.defers)-1]
		th.runDefer(fr, d)
	}
	if fr.panicking {
		panic(fr.panicVal)
	}
}

func (th *Thread) runDefer(fr *Frame, d *deferred) {
	ok := false
	defer func() {
		if !ok {
			r := recover()
			if _, isAbort := r.(abortRun); isAbort {
				panic(r)
			}
			if _, isT := r.(targetPanic); !isT {
				panic(r)
			}
			fr.panicking = true
			fr.panicVal = r
			th.fr = fr
		}
	}()
	th.call(fr, d.pos, d.fn, d.args)
	ok = true
}

func (th *Thread) doRecover(caller *Frame) Value {
	// recover() is called from a deferred function (caller) whose caller is panicking
	if caller != nil && !caller.panicking && caller.caller != nil && caller.caller.panicking {
		caller.caller.panicking = false
		p := caller.caller.panicVal
		caller.caller.panicVal = nil
		if tp, ok := p.(targetPanic); ok {
			if tp.v == nil {
				return th.m.runtimeError(tp.desc)
			}
			return tp.v
		}
	}
	return Iface{}
}

func (m *Machine) runtimeError(msg string) Value {
	return Iface{T: m.env.runtimeErrT, V: Str{C: "runtime error: " + msg}}
}

func (th *Thread) rtPanic(msg string) {
	panic(targetPanic{v: th.m.runtimeError(msg), desc: "runtime error: " + msg})
}

type continuation int

const (
	kNext continuation = iota
	kReturn
	kJump
)

func (fr *Frame) get(key ssa.Value) Value {
	m := fr.th.m
	switch key := key.(type) {
	case nil:
		return nil
	case *ssa.Function:
		return &Closure{Fn: key}
	case *ssa.Builtin:
		return &Closure{Builtin: key}
	case *ssa.Const:
		return m.constValue(key)
	case *ssa.Global:
		return m.global(key)
	}
	if r, ok := fr.env[key]; ok {
		return r
	}
	m.unsupported(fmt.Sprintf("no value for %T %s", key, key.Name()))
	return nil
}

func (m *Machine) global(g *ssa.Global) *Value {
	if p, ok := m.globals[g]; ok {
		return p
	}
	cell := new(Value)
	*cell = m.zero(deref(g.Type()))
	m.globals[g] = cell
	return cell
}

func (m *Machine) constValue(c *ssa.Const) Value {
	t := c.Type()
	if c.Value == nil {
		return m.zero(t)
	}
	if tp, ok := t.(*types.TypeParam); ok {
		_ = tp
		m.unsupported("const of type parameter")
	}
	if isString(t) {
		return Str{C: constant.StringVal(c.Value)}
	}
	k, ok := scalarOf(t)
	if !ok {
		m.unsupported("const of type " + t.String())
	}
	if k.w == 0 {
		return m.ts.Bool(constant.BoolVal(c.Value))
	}
	if k.float {
		f, _ := constant.Float64Val(constant.ToFloat(c.Value))
		if k.w == 64 {
			return m.ts.Const(64, f64bits(f))
		}
		return m.ts.Const(32, uint64(f32bits(float32(f))))
	}
	if k.signed {
		return m.ts.Const(k.w, uint64(c.Int64()))
	}
	return m.ts.Const(k.w, c.Uint64())
}

// ---- instruction dispatch ------------------------------------------------------------

func (th *Thread) visit(fr *Frame, instr ssa.Instruction) continuation {
	m := th.m
	switch instr := instr.(type) {
	case *ssa.DebugRef:
	case *ssa.UnOp:
		fr.env[instr] = th.unop(instr, fr.get(instr.X))
	case *ssa.BinOp:
		fr.env[instr] = th.binop(instr.Op, instr.X.Type(), fr.get(instr.X), fr.get(instr.Y))
	case *ssa.Call:
		fn, args := th.prepareCall(fr, &instr.Call)
		if b, ok := fn.(*Closure); ok && b != nil && b.Builtin != nil {
			fr.env[instr] = th.callBuiltin(fr, b.Builtin, args, &instr.Call)
		} else {
			fr.env[instr] = th.call(fr, instr.Pos(), fn, args)
		}
	case *ssa.ChangeInterface:
		fr.env[instr] = fr.get(instr.X)
	case *ssa.ChangeType:
		fr.env[instr] = fr.get(instr.X)
	case *ssa.Convert:
		fr.env[instr] = th.conv(instr.Type(), instr.X.Type(), fr.get(instr.X))
	case *ssa.MultiConvert:
		fr.env[instr] = th.conv(instr.Type(), instr.X.Type(), fr.get(instr.X))
	case *ssa.SliceToArrayPointer:
		m.unsupported("SliceToArrayPointer")
	case *ssa.MakeInterface:
		fr.env[instr] = Iface{T: instr.X.Type(), V: fr.get(instr.X)}
	case *ssa.Extract:
		fr.env[instr] = fr.get(instr.Tuple).(Tuple)[instr.Index]
	case *ssa.Slice:
		fr.env[instr] = th.slice(instr, fr.get(instr.X), fr.get(instr.Low), fr.get(instr.High), fr.get(instr.Max))
	case *ssa.Return:
		switch len(instr.Results) {
		case 0:
		case 1:
			fr.result = fr.get(instr.Results[0])
		default:
			res := make(Tuple, len(instr.Results))
			for i, r := range instr.Results {
				res[i] = fr.get(r)
			}
			fr.result = res
		}
		fr.block = nil
		return kReturn
	case *ssa.RunDefers:
		th.runDefers(fr)
	case *ssa.Panic:
		v := fr.get(instr.X)
		panic(targetPanic{v: v, desc: "panic: " + m.describePanic(v)})
	case *ssa.Send:
		th.chanSend(fr.get(instr.Chan).(*Chan), fr.get(instr.X))
	case *ssa.Store:
		addr := fr.get(instr.Addr).(*Value)
		if addr == nil {
			th.rtPanic("invalid memory address or nil pointer dereference")
		}
		th.onWrite(addr)
		store(addr, fr.get(instr.Val))
	case *ssa.If:
		c := fr.get(instr.Cond).(*Term)
		succ := 1
		if m.decide(c) {
			succ = 0
		}
		fr.prevBlock, fr.block = fr.block, fr.block.Succs[succ]
		return kJump
	case *ssa.Jump:
		fr.prevBlock, fr.block = fr.block, fr.block.Succs[0]
		return kJump
	case *ssa.Defer:
		fn, args := th.prepareCall(fr, &instr.Call)
		fr.defers = append(fr.defers, &deferred{fn: fn, args: args, pos: instr.Pos()})
	case *ssa.Go:
		fn, args := th.prepareCall(fr, &instr.Call)
		th.spawn(fn, args, instr.Pos())
	case *ssa.MakeChan:
		n := int(m.asInt(fr.get(instr.Size)))
		m.chanIDs++
		fr.env[instr] = &Chan{cap: n, elemT: instr.Type().Underlying().(*types.Chan).Elem(), id: m.chanIDs}
	case *ssa.Alloc:
		var addr *Value
		if instr.Heap {
			addr = new(Value)
			fr.env[instr] = addr
		} else {
			addr = fr.env[instr].(*Value)
		}
		*addr = m.zero(deref(instr.Type()))
	case *ssa.MakeSlice:
		capn := m.asInt(fr.get(instr.Cap))
		lenn := m.asInt(fr.get(instr.Len))
		if lenn < 0 || capn < lenn {
			th.rtPanic("makeslice: len out of range")
		}
		if capn > 1<<22 {
			m.unsupported(fmt.Sprintf("make slice of %d elements", capn))
		}
		s := make(Slice, capn)
		tElt := instr.Type().Underlying().(*types.Slice).Elem()
		z := m.zero(tElt)
		switch z.(type) {
		case Struct, Array:
			for i := range s {
				s[i] = m.zero(tElt)
			}
		default:
			for i := range s {
				s[i] = z
			}
		}
		fr.env[instr] = s[:lenn]
	case *ssa.MakeMap:
		m.mapIDs++
		fr.env[instr] = &Map{KeyT: instr.Type().Underlying().(*types.Map).Key(), id: m.mapIDs}
	case *ssa.Range:
		fr.env[instr] = th.rangeIter(fr.get(instr.X))
	case *ssa.Next:
		fr.env[instr] = th.next(fr.get(instr.Iter), instr)
	case *ssa.FieldAddr:
		p := fr.get(instr.X).(*Value)
		if p == nil {
			th.rtPanic("invalid memory address or nil pointer dereference")
		}
		fr.env[instr] = &(*p).(Struct)[instr.Field]
	case *ssa.Field:
		fr.env[instr] = fr.get(instr.X).(Struct)[instr.Field]
	case *ssa.IndexAddr:
		x := fr.get(instr.X)
		switch x := x.(type) {
		case Slice:
			i := th.index(fr.get(instr.Index), len(x), instr.Index.Type())
			fr.env[instr] = &x[i]
		case *Value:
			if x == nil {
				th.rtPanic("invalid memory address or nil pointer dereference")
			}
			a := (*x).(Array)
			i := th.index(fr.get(instr.Index), len(a), instr.Index.Type())
			fr.env[instr] = &a[i]
		default:
			m.unsupported(fmt.Sprintf("IndexAddr on %T", x))
		}
	case *ssa.Index:
		x := fr.get(instr.X)
		switch x := x.(type) {
		case Array:
			i := th.index(fr.get(instr.Index), len(x), instr.Index.Type())
			fr.env[instr] = copyVal(x[i])
		case Str:
			bs := m.strBytes(x)
			i := th.index(fr.get(instr.Index), len(bs), instr.Index.Type())
			fr.env[instr] = bs[i]
		default:
			m.unsupported(fmt.Sprintf("Index on %T", x))
		}
	case *ssa.Lookup:
		fr.env[instr] = th.lookup(instr, fr.get(instr.X), fr.get(instr.Index))
	case *ssa.MapUpdate:
		mp := fr.get(instr.Map).(*Map)
		if mp == nil {
			th.rtPanic("assignment to entry in nil map")
		}
		th.onWriteMap(mp)
		th.mapInsert(mp, fr.get(instr.Key), fr.get(instr.Value))
	case *ssa.TypeAssert:
		fr.env[instr] = th.typeAssert(instr, fr.get(instr.X).(Iface))
	case *ssa.MakeClosure:
		var bindings []Value
		for _, b := range instr.Bindings {
			bindings = append(bindings, fr.get(b))
		}
		fr.env[instr] = &Closure{Fn: instr.Fn.(*ssa.Function), Env: bindings}
	case *ssa.Select:
		fr.env[instr] = th.selectStmt(fr, instr)
	default:
		m.unsupported(fmt.Sprintf("instruction %T", instr))
	}
	return kNext
}

func (m *Machine) describePanic(v Value) string {
	if i, ok := v.(Iface); ok {
		if s, ok := i.V.(Str); ok && s.IsConcrete() {
			return s.C
		}
		if i.T != nil {
			// error values: try field 0 string
			if p, ok := i.V.(*Value); ok && p != nil {
				if st, ok := (*p).(Struct); ok && len(st) > 0 {
					if s, ok := st[0].(Str); ok && s.IsConcrete() {
						return i.T.String() + ":" + s.C
					}
				}
			}
			return i.T.String()
		}
	}
	return describe(v)
}

// index checks bounds and returns a concrete index.
func (th *Thread) index(iv Value, n int, T types.Type) int {
	t := iv.(*Term)
	k, _ := scalarOf(T)
	if !k.signed && t.W < 64 {
		t = th.m.ts.ZExt(t, 64)
	}
	if !t.IsConst() {
		// bounds check as a fork, then case split
		m := th.m
		in := m.ts.Cmp(OpULt, m.ts.SExt(t, 64), m.ts.Const(64, uint64(n)))
		if !m.decide(in) {
			th.rtPanic(fmt.Sprintf("index out of range [symbolic] with length %d", n))
		}
		return int(signExt(m.concretize(t), t.W))
	}
	i := t.Signed()
	if i < 0 || i >= int64(n) {
		th.rtPanic(fmt.Sprintf("index out of range [%d] with length %d", i, n))
	}
	return int(i)
}

func (th *Thread) prepareCall(fr *Frame, call *ssa.CallCommon) (fn Value, args []Value) {
	m := th.m
	v := fr.get(call.Value)
	if call.Method == nil {
		fn = v
	} else {
		recv := v.(Iface)
		if recv.T == nil {
			th.rtPanic("invalid memory address or nil pointer dereference (method call on nil interface)")
		}
		f := m.prog.LookupMethod(recv.T, call.Method.Pkg(), call.Method.Name())
		if f == nil {
			m.unsupported(fmt.Sprintf("method set of %v lacks %s", recv.T, call.Method))
		}
		fn = &Closure{Fn: f}
		args = append(args, recv.V)
	}
	for _, a := range call.Args {
		args = append(args, fr.get(a))
	}
	return
}

// ---- strings / slices -------------------------------------------------------------------

func (th *Thread) slice(instr *ssa.Slice, x, lo, hi, max Value) Value {
	m := th.m
	geti := func(v Value, def int) int {
		if v == nil {
			return def
		}
		return int(m.asInt(v))
	}
	switch x := x.(type) {
	case Str:
		if x.Opaque != nil {
			m.unsupported("slicing an opaque string")
		}
		n := x.Len()
		l, h := geti(lo, 0), geti(hi, n)
		if l < 0 || h > n || l > h {
			th.rtPanic(fmt.Sprintf("slice bounds out of range [%d:%d] with length %d", l, h, n))
		}
		if x.Sym != nil {
			return mkStr(x.Sym[l:h])
		}
		return Str{C: x.C[l:h]}
	case Slice:
		l, h, mx := geti(lo, 0), geti(hi, len(x)), geti(max, cap(x))
		if l < 0 || h > cap(x) || l > h || mx > cap(x) || h > mx {
			th.rtPanic(fmt.Sprintf("slice bounds out of range [%d:%d:%d] with capacity %d", l, h, mx, cap(x)))
		}
		if x == nil {
			return Slice(nil)
		}
		return x[l:h:mx]
	case *Value:
		if x == nil {
			th.rtPanic("invalid memory address or nil pointer dereference")
		}
		a := (*x).(Array)
		l, h, mx := geti(lo, 0), geti(hi, len(a)), geti(max, len(a))
		if l < 0 || h > len(a) || l > h || mx > len(a) || h > mx {
			th.rtPanic("slice bounds out of range")
		}
		return Slice(a)[l:h:mx]
	}
	if ob, ok := x.(OBytes); ok {
		// only the full range of an abstract byte slice can be taken
		full := func(v Value, isLo bool) bool {
			if v == nil {
				return true
			}
			t := v.(*Term)
			if isLo {
				return t.IsConst() && t.Val == 0
			}
			return t == th.strLenTerm(ob.S)
		}
		if full(lo, true) && full(hi, false) && full(max, false) {
			return ob
		}
		// a part of an abstract byte slice: a new abstract chunk identified by its source and bounds
		ts := m.ts
		total := th.strLenTerm(ob.S)
		l, h := ts.Const(64, 0), total
		if lo != nil {
			l = lo.(*Term)
		}
		if hi != nil {
			h = hi.(*Term)
		}
		okc := ts.And(ts.And(ts.Cmp(OpSLe, ts.Const(64, 0), l), ts.Cmp(OpSLe, l, h)), ts.Cmp(OpSLe, h, total))
		if !m.decide(okc) {
			th.rtPanic("slice bounds out of range (abstract byte slice)")
		}
		ln := ts.Bin(OpSub, h, l)
		id := "sub("
		if ob.S.Opaque != nil {
			for _, sg := range ob.S.Opaque.Segs {
				id += sg.ID + "/"
			}
		}
		id += fmt.Sprintf(")[n%d:n%d]", l.id, h.id)
		return OBytes{Str{Opaque: &OpaqueStr{Len: ln, Segs: []Seg{{ID: id, Len: ln}}}}}
	}
	m.unsupported(fmt.Sprintf("slice of %T", x))
	return nil
}

// ---- maps ------------------------------------------------------------------------------------

// keyEq returns the term "a == b" for map keys / comparable values.
func (th *Thread) equal(a, b Value) *Term {
	m := th.m
	switch a := a.(type) {
	case *Term:
		bt := b.(*Term)
		return m.ts.Eq(a, bt)
	case Str:
		bs := b.(Str)
		if a.Opaque != nil || bs.Opaque != nil {
			return th.ropeEq(a, bs)
		}
		if a.Len() != bs.Len() {
			return m.ts.Bool(false)
		}
		if a.IsConcrete() && bs.IsConcrete() {
			return m.ts.Bool(a.C == bs.C)
		}
		ab, bb := m.strBytes(a), m.strBytes(bs)
		r := m.ts.Bool(true)
		for i := range ab {
			r = m.ts.And(r, m.ts.Eq(ab[i], bb[i]))
		}
		return r
	case *Value:
		return m.ts.Bool(a == b.(*Value))
	case *Map:
		return m.ts.Bool(a == b.(*Map))
	case *Chan:
		return m.ts.Bool(a == b.(*Chan))
	case UnsafePtr:
		return m.ts.Bool(a.P == b.(UnsafePtr).P)
	case Iface:
		bi := b.(Iface)
		if a.T == nil || bi.T == nil {
			return m.ts.Bool(a.T == nil && bi.T == nil)
		}
		if !types.Identical(a.T, bi.T) {
			return m.ts.Bool(false)
		}
		switch a.T.Underlying().(type) {
		case *types.Slice, *types.Map, *types.Signature:
			th.rtPanic("comparing uncomparable type " + a.T.String())
		}
		return th.equal(a.V, bi.V)
	case Struct:
		bs := b.(Struct)
		r := m.ts.Bool(true)
		for i := range a {
			r = m.ts.And(r, th.equal(a[i], bs[i]))
		}
		return r
	case Array:
		bs := b.(Array)
		r := m.ts.Bool(true)
		for i := range a {
			r = m.ts.And(r, th.equal(a[i], bs[i]))
		}
		return r
	case *Closure:
		bc, _ := b.(*Closure)
		if a == nil || bc == nil {
			return m.ts.Bool(a == nil && bc == nil)
		}
		m.unsupported("comparison of non-nil funcs")
	case Slice:
		// only comparison with nil is legal; handled by caller
		m.unsupported("slice comparison")
	}
	m.unsupported(fmt.Sprintf("equality on %T", a))
	return nil
}

// floatKeyEq: map keys of float type compare with ==
func (th *Thread) keyEqual(kt types.Type, a, b Value) *Term {
	if k, ok := scalarOf(kt); ok && k.float {
		return th.m.ts.FCmp(OpFEq, a.(*Term), b.(*Term))
	}
	if st, ok := kt.Underlying().(*types.Struct); ok {
		as, bs := a.(Struct), b.(Struct)
		r := th.m.ts.Bool(true)
		for i := range as {
			r = th.m.ts.And(r, th.keyEqual(st.Field(i).Type(), as[i], bs[i]))
		}
		return r
	}
	return th.equal(a, b)
}

func (th *Thread) mapFind(mp *Map, k Value) *MapEntry {
	m := th.m
	for _, e := range mp.Entries {
		if e.Deleted {
			continue
		}
		eq := th.keyEqual(mp.KeyT, e.K, k)
		if m.decide(eq) {
			return e
		}
	}
	return nil
}

func (th *Thread) mapInsert(mp *Map, k, v Value) {
	if e := th.mapFind(mp, k); e != nil {
		e.V = copyVal(v)
		return
	}
	mp.Entries = append(mp.Entries, &MapEntry{K: copyVal(k), V: copyVal(v)})
}

func (mp *Map) live() int {
	n := 0
	for _, e := range mp.Entries {
		if !e.Deleted {
			n++
		}
	}
	return n
}

func (th *Thread) lookup(instr *ssa.Lookup, x, idx Value) Value {
	m := th.m
	switch x := x.(type) {
	case *Map:
		var v Value
		ok := false
		if x != nil {
			th.onReadMap(x)
			if e := th.mapFind(x, idx); e != nil {
				v, ok = copyVal(e.V), true
			}
		}
		if !ok {
			v = m.zero(instr.X.Type().Underlying().(*types.Map).Elem())
		}
		if instr.CommaOk {
			return Tuple{v, m.ts.Bool(ok)}
		}
		return v
	case Str:
		bs := m.strBytes(x)
		i := th.index(idx, len(bs), instr.Index.Type())
		return bs[i]
	}
	m.unsupported(fmt.Sprintf("lookup on %T", x))
	return nil
}

func (th *Thread) rangeIter(x Value) Value {
	m := th.m
	switch x := x.(type) {
	case *Map:
		it := &MapIter{m: x}
		if x != nil {
			th.onReadMap(x)
			for _, e := range x.Entries {
				if !e.Deleted {
					it.snap = append(it.snap, e)
				}
			}
		}
		n := len(it.snap)
		it.order = make([]int, n)
		for i := range it.order {
			it.order[i] = i
		}
		if n > 1 {
			m.res.MapOrderDependent = true
		}
		if m.permuteMaps > 0 && n > 1 && n <= m.permuteMaps {
			perms := permutations(n)
			it.order = perms[m.decideN(len(perms))]
		} else if m.rotateMaps && n > 1 {
			// larger maps: every rotation of the insertion order (what the runtime's random
			// start produces for a map of one bucket; an under-approximation beyond that)
			k := m.decideN(n)
			for i := range it.order {
				it.order[i] = (i + k) % n
			}
		}
		return it
	case Str:
		return &StrIter{s: x}
	}
	m.unsupported(fmt.Sprintf("range over %T", x))
	return nil
}

func permutations(n int) [][]int {
	var res [][]int
	var rec func(cur []int, used []bool)
	rec = func(cur []int, used []bool) {
		if len(cur) == n {
			res = append(res, append([]int{}, cur...))
			return
		}
		for i := 0; i < n; i++ {
			if !used[i] {
				used[i] = true
				rec(append(cur, i), used)
				used[i] = false
			}
		}
	}
	rec(nil, make([]bool, n))
	return res
}

func (th *Thread) next(it Value, instr *ssa.Next) Value {
	m := th.m
	switch it := it.(type) {
	case *MapIter:
		for it.pos < len(it.order) {
			e := it.snap[it.order[it.pos]]
			it.pos++
			if e.Deleted {
				continue
			}
			return Tuple{m.ts.Bool(true), copyVal(e.K), copyVal(e.V)}
		}
		tt := instr.Type().(*types.Tuple)
		return Tuple{m.ts.Bool(false), m.zeroOrNil(tt.At(1).Type()), m.zeroOrNil(tt.At(2).Type())}
	case *StrIter:
		bs := m.strBytes(it.s)
		if it.pos >= len(bs) {
			return Tuple{m.ts.Bool(false), m.ts.Const(64, 0), m.ts.Const(32, 0)}
		}
		start := it.pos
		r, w := th.decodeRune(bs[it.pos:])
		it.pos += w
		return Tuple{m.ts.Bool(true), m.ts.Const(64, uint64(start)), r}
	}
	m.unsupported(fmt.Sprintf("next on %T", it))
	return nil
}

func (m *Machine) zeroOrNil(t types.Type) Value {
	if t == nil {
		return nil
	}
	if b, ok := t.(*types.Basic); ok && b.Kind() == types.Invalid {
		return nil
	}
	return m.zero(t)
}

// decodeRune implements Go's UTF-8 decoding of the first rune of bs (len>=1)
// as a case split on byte classes.  Invalid encodings yield U+FFFD, width 1.
func (th *Thread) decodeRune(bs []*Term) (*Term, int) {
	m := th.m
	ts := m.ts
	b0 := bs[0]
	c8 := func(v uint64) *Term { return ts.Const(8, v) }
	inRange := func(b *Term, lo, hi uint64) *Term {
		return ts.And(ts.Cmp(OpULe, c8(lo), b), ts.Cmp(OpULe, b, c8(hi)))
	}
	z32 := func(b *Term) *Term { return ts.ZExt(b, 32) }
	bad := ts.Const(32, 0xFFFD)
	if m.decide(ts.Cmp(OpULt, b0, c8(0x80))) {
		return z32(b0), 1
	}
	if m.decide(inRange(b0, 0xC2, 0xDF)) {
		if len(bs) < 2 || !m.decide(inRange(bs[1], 0x80, 0xBF)) {
			return bad, 1
		}
		r := ts.Bin(OpBOr, ts.Bin(OpShl, ts.Bin(OpBAnd, z32(b0), ts.Const(32, 0x1F)), ts.Const(32, 6)),
			ts.Bin(OpBAnd, z32(bs[1]), ts.Const(32, 0x3F)))
		return r, 2
	}
	if m.decide(inRange(b0, 0xE0, 0xEF)) {
		if len(bs) < 3 {
			return bad, 1
		}
		// second byte range depends on b0
		lo := ts.Ite(ts.Eq(b0, c8(0xE0)), c8(0xA0), c8(0x80))
		hi := ts.Ite(ts.Eq(b0, c8(0xED)), c8(0x9F), c8(0xBF))
		ok1 := ts.And(ts.Cmp(OpULe, lo, bs[1]), ts.Cmp(OpULe, bs[1], hi))
		if !m.decide(ok1) || !m.decide(inRange(bs[2], 0x80, 0xBF)) {
			return bad, 1
		}
		r := ts.Bin(OpBOr, ts.Bin(OpBOr,
			ts.Bin(OpShl, ts.Bin(OpBAnd, z32(b0), ts.Const(32, 0x0F)), ts.Const(32, 12)),
			ts.Bin(OpShl, ts.Bin(OpBAnd, z32(bs[1]), ts.Const(32, 0x3F)), ts.Const(32, 6))),
			ts.Bin(OpBAnd, z32(bs[2]), ts.Const(32, 0x3F)))
		return r, 3
	}
	if m.decide(inRange(b0, 0xF0, 0xF4)) {
		if len(bs) < 4 {
			return bad, 1
		}
		lo := ts.Ite(ts.Eq(b0, c8(0xF0)), c8(0x90), c8(0x80))
		hi := ts.Ite(ts.Eq(b0, c8(0xF4)), c8(0x8F), c8(0xBF))
		ok1 := ts.And(ts.Cmp(OpULe, lo, bs[1]), ts.Cmp(OpULe, bs[1], hi))
		if !m.decide(ok1) || !m.decide(inRange(bs[2], 0x80, 0xBF)) || !m.decide(inRange(bs[3], 0x80, 0xBF)) {
			return bad, 1
		}
		r := ts.Bin(OpBOr, ts.Bin(OpBOr, ts.Bin(OpBOr,
			ts.Bin(OpShl, ts.Bin(OpBAnd, z32(b0), ts.Const(32, 0x07)), ts.Const(32, 18)),
			ts.Bin(OpShl, ts.Bin(OpBAnd, z32(bs[1]), ts.Const(32, 0x3F)), ts.Const(32, 12))),
			ts.Bin(OpShl, ts.Bin(OpBAnd, z32(bs[2]), ts.Const(32, 0x3F)), ts.Const(32, 6))),
			ts.Bin(OpBAnd, z32(bs[3]), ts.Const(32, 0x3F)))
		return r, 4
	}
	return bad, 1
}

// ---- type assertions -----------------------------------------------------------------------

func (th *Thread) typeAssert(instr *ssa.TypeAssert, itf Iface) Value {
	m := th.m
	var ok bool
	var v Value
	if idst, isIface := instr.AssertedType.Underlying().(*types.Interface); isIface {
		if itf.T != nil {
			ok = types.Implements(itf.T, idst) || m.implements(itf.T, idst)
		}
		if ok {
			v = itf
		}
	} else {
		ok = itf.T != nil && types.Identical(itf.T, instr.AssertedType)
		if ok {
			v = itf.V
		}
	}
	if instr.CommaOk {
		if !ok {
			v = m.zero(instr.AssertedType)
		}
		return Tuple{v, m.ts.Bool(ok)}
	}
	if !ok {
		if itf.T == nil {
			th.rtPanic(fmt.Sprintf("interface conversion: interface is nil, not %s", instr.AssertedType))
		}
		th.rtPanic(fmt.Sprintf("interface conversion: interface is %s, not %s", itf.T, instr.AssertedType))
	}
	return v
}

func (m *Machine) implements(t types.Type, i *types.Interface) bool {
	ms := m.prog.MethodSets.MethodSet(t)
	for k := 0; k < i.NumMethods(); k++ {
		meth := i.Method(k)
		if ms.Lookup(meth.Pkg(), meth.Name()) == nil {
			return false
		}
	}
	return true
}

// ---- builtins ------------------------------------------------------------------------------------

func (th *Thread) callBuiltin(caller *Frame, b *ssa.Builtin, args []Value, cc *ssa.CallCommon) Value {
	m := th.m
	ts := m.ts
	switch b.Name() {
	case "append":
		if len(args) == 1 {
			return args[0]
		}
		if s, ok := args[1].(Str); ok {
			bs := m.strBytes(s)
			x := args[0].(Slice)
			inPlace := len(bs) > 0 && len(x)+len(bs) <= cap(x)
			out := x
			for _, bt := range bs {
				out = append(out, Value(bt))
			}
			if inPlace {
				for i := len(x); i < len(out); i++ {
					th.onWrite(&out[i])
				}
			}
			return out
		}
		x, y := args[0].(Slice), args[1].(Slice)
		if len(y) == 0 {
			return x
		}
		inPlace := len(x)+len(y) <= cap(x)
		out := x
		for _, e := range y {
			out = append(out, copyVal(e))
		}
		if inPlace {
			// the elements went into the spare capacity of x's backing array: those are
			// writes to memory another goroutine may share
			for i := len(x); i < len(out); i++ {
				th.onWrite(&out[i])
			}
		}
		return out
	case "copy":
		dst := args[0].(Slice)
		if s, ok := args[1].(Str); ok {
			bs := m.strBytes(s)
			n := len(bs)
			if len(dst) < n {
				n = len(dst)
			}
			for i := 0; i < n; i++ {
				dst[i] = bs[i]
			}
			return ts.Const(64, uint64(n))
		}
		src := args[1].(Slice)
		n := len(src)
		if len(dst) < n {
			n = len(dst)
		}
		tmp := make([]Value, n)
		for i := 0; i < n; i++ {
			tmp[i] = copyVal(src[i])
		}
		for i := 0; i < n; i++ {
			store(&dst[i], tmp[i])
		}
		return ts.Const(64, uint64(n))
	case "close":
		th.chanClose(args[0].(*Chan))
		return nil
	case "delete":
		mp := args[0].(*Map)
		if mp != nil {
			th.onWriteMap(mp)
			if e := th.mapFind(mp, args[1]); e != nil {
				e.Deleted = true
			}
		}
		return nil
	case "print", "println":
		return nil
	case "len":
		switch x := args[0].(type) {
		case Str:
			if x.Opaque != nil {
				return x.Opaque.Len
			}
			return ts.Const(64, uint64(x.Len()))
		case Slice:
			return ts.Const(64, uint64(len(x)))
		case OBytes:
			return th.strLenTerm(x.S)
		case Array:
			return ts.Const(64, uint64(len(x)))
		case *Value:
			return ts.Const(64, uint64(len((*x).(Array))))
		case *Map:
			if x == nil {
				return ts.Const(64, 0)
			}
			th.onReadMap(x)
			return ts.Const(64, uint64(x.live()))
		case *Chan:
			if x == nil {
				return ts.Const(64, 0)
			}
			return ts.Const(64, uint64(len(x.buf)))
		}
	case "cap":
		switch x := args[0].(type) {
		case Slice:
			return ts.Const(64, uint64(cap(x)))
		case Array:
			return ts.Const(64, uint64(len(x)))
		case *Value:
			return ts.Const(64, uint64(len((*x).(Array))))
		case *Chan:
			if x == nil {
				return ts.Const(64, 0)
			}
			return ts.Const(64, uint64(x.cap))
		}
	case "recover":
		return th.doRecover(caller)
	case "panic":
		panic(targetPanic{v: args[0], desc: "panic: " + m.describePanic(args[0])})
	case "min", "max":
		if len(args) == 2 {
			if _, ok := args[0].(*Term); ok {
				var T types.Type
				if cc != nil {
					T = cc.Args[0].Type()
				}
				if T != nil {
					lt := th.binop(token.LSS, T, args[0], args[1]).(*Term)
					if b.Name() == "min" {
						return ts.Ite(lt, args[0].(*Term), args[1].(*Term))
					}
					return ts.Ite(lt, args[1].(*Term), args[0].(*Term))
				}
			}
		}
	case "ssa:wrapnilchk":
		recv := args[0]
		if p, ok := recv.(*Value); ok && p == nil {
			th.rtPanic("value method called using nil pointer")
		}
		return recv
	case "clear":
		switch x := args[0].(type) {
		case *Map:
			if x != nil {
				for _, e := range x.Entries {
					e.Deleted = true
				}
			}
			return nil
		}
	}
	m.unsupported("builtin " + b.Name())
	return nil
}

var _ = sort.Ints
