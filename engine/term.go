package main

// Terms: hash-consed DAG of SMT-LIB expressions over Bool and fixed-width
// bit-vectors.  float64/float32 are carried as bit-vectors of their IEEE
// pattern; the fp* operators interpret them through the FP theory.

import (
	"fmt"
	"math"
	"math/bits"
	"strings"
)

type Op uint8

const (
	OpConst Op = iota
	OpVar
	OpNot
	OpAnd
	OpOr
	OpIte
	OpEq
	OpAdd
	OpSub
	OpMul
	OpUDiv
	OpURem
	OpSDiv
	OpSRem
	OpBAnd
	OpBOr
	OpBXor
	OpBNot
	OpNeg
	OpShl
	OpLShr
	OpAShr
	OpULt
	OpULe
	OpSLt
	OpSLe
	OpZExt
	OpSExt
	OpExtract // aux: hi<<8|lo
	OpConcat
	OpFLt
	OpFLe
	OpFEq
	OpFAdd
	OpFSub
	OpFMul
	OpFDiv
	OpFNeg
	OpFIsNaN
	OpI2F // signed int (arg width) -> float of width W
	OpU2F
	OpF2I // float -> signed int width W (RTZ)
	OpF2U
	OpF2F // float width conversion
	OpUF  // uninterpreted function; name in Name
)

// Term is an immutable SMT term.  W==0 means Bool.
type Term struct {
	Op   Op
	W    int
	Val  uint64 // const value (Bool: 0/1)
	Aux  int
	Name string
	Args []*Term
	id   int
}

// TermStore hash-conses terms of one run.
type TermStore struct {
	tab    map[string]*Term
	ktab   map[termKey]*Term
	nextID int
	vars   []*Term
	ufs    map[string]string // name -> declaration
}

func NewTermStore() *TermStore {
	return &TermStore{tab: map[string]*Term{}, ktab: map[termKey]*Term{}, ufs: map[string]string{}}
}

type termKey struct {
	op         Op
	w          int
	val        uint64
	aux        int
	name       string
	n          int
	a0, a1, a2 int
}

func (s *TermStore) mk(op Op, w int, val uint64, aux int, name string, args ...*Term) *Term {
	if len(args) <= 3 {
		k := termKey{op: op, w: w, val: val, aux: aux, name: name, n: len(args), a0: -1, a1: -1, a2: -1}
		if len(args) > 0 {
			k.a0 = args[0].id
		}
		if len(args) > 1 {
			k.a1 = args[1].id
		}
		if len(args) > 2 {
			k.a2 = args[2].id
		}
		if t, ok := s.ktab[k]; ok {
			return t
		}
		t := &Term{Op: op, W: w, Val: val, Aux: aux, Name: name, Args: args, id: s.nextID}
		s.nextID++
		s.ktab[k] = t
		return t
	}
	var sb strings.Builder
	fmt.Fprintf(&sb, "%d|%d|%d|%d|%s", op, w, val, aux, name)
	for _, a := range args {
		fmt.Fprintf(&sb, "|%d", a.id)
	}
	k := sb.String()
	if t, ok := s.tab[k]; ok {
		return t
	}
	t := &Term{Op: op, W: w, Val: val, Aux: aux, Name: name, Args: args, id: s.nextID}
	s.nextID++
	s.tab[k] = t
	return t
}

func mask(w int) uint64 {
	if w >= 64 {
		return ^uint64(0)
	}
	return (uint64(1) << uint(w)) - 1
}

func (t *Term) IsConst() bool { return t.Op == OpConst }
func (t *Term) IsBool() bool  { return t.W == 0 }
func (t *Term) IsTrue() bool  { return t.Op == OpConst && t.W == 0 && t.Val == 1 }
func (t *Term) IsFalse() bool { return t.Op == OpConst && t.W == 0 && t.Val == 0 }

// Signed returns the constant value sign-extended to int64.
func (t *Term) Signed() int64 {
	return signExt(t.Val, t.W)
}

func signExt(v uint64, w int) int64 {
	if w >= 64 {
		return int64(v)
	}
	sh := uint(64 - w)
	return int64(v<<sh) >> sh
}

func (s *TermStore) Const(w int, v uint64) *Term {
	return s.mk(OpConst, w, v&mask(w), 0, "")
}
func (s *TermStore) Bool(b bool) *Term {
	if b {
		return s.mk(OpConst, 0, 1, 0, "")
	}
	return s.mk(OpConst, 0, 0, 0, "")
}
func (s *TermStore) Var(name string, w int) *Term {
	t := s.mk(OpVar, w, 0, 0, name)
	if t.id == s.nextID-1 { // new
		s.vars = append(s.vars, t)
	}
	return t
}

func (s *TermStore) Not(a *Term) *Term {
	if a.IsConst() {
		return s.Bool(a.Val == 0)
	}
	if a.Op == OpNot {
		return a.Args[0]
	}
	return s.mk(OpNot, 0, 0, 0, "", a)
}

func (s *TermStore) And(a, b *Term) *Term {
	if a.IsConst() {
		if a.Val == 1 {
			return b
		}
		return a
	}
	if b.IsConst() {
		if b.Val == 1 {
			return a
		}
		return b
	}
	if a == b {
		return a
	}
	return s.mk(OpAnd, 0, 0, 0, "", a, b)
}

func (s *TermStore) Or(a, b *Term) *Term {
	if a.IsConst() {
		if a.Val == 0 {
			return b
		}
		return a
	}
	if b.IsConst() {
		if b.Val == 0 {
			return a
		}
		return b
	}
	if a == b {
		return a
	}
	return s.mk(OpOr, 0, 0, 0, "", a, b)
}

func (s *TermStore) Implies(a, b *Term) *Term { return s.Or(s.Not(a), b) }

func (s *TermStore) Ite(c, a, b *Term) *Term {
	if c.IsConst() {
		if c.Val == 1 {
			return a
		}
		return b
	}
	if a == b {
		return a
	}
	if a.W == 0 {
		if a.IsConst() && b.IsConst() {
			if a.Val == 1 {
				return c
			}
			return s.Not(c)
		}
	}
	return s.mk(OpIte, a.W, 0, 0, "", c, a, b)
}

func (s *TermStore) Eq(a, b *Term) *Term {
	if a.W != b.W {
		panic(fmt.Sprintf("Eq width mismatch %d %d", a.W, b.W))
	}
	if a == b {
		return s.Bool(true)
	}
	if a.IsConst() && b.IsConst() {
		return s.Bool(a.Val == b.Val)
	}
	if a.W == 0 {
		if a.IsConst() {
			if a.Val == 1 {
				return b
			}
			return s.Not(b)
		}
		if b.IsConst() {
			if b.Val == 1 {
				return a
			}
			return s.Not(a)
		}
	}
	if a.id > b.id {
		a, b = b, a
	}
	return s.mk(OpEq, 0, 0, 0, "", a, b)
}

// Bin applies a bit-vector binary operator with constant folding.
func (s *TermStore) Bin(op Op, a, b *Term) *Term {
	if a.W != b.W {
		panic(fmt.Sprintf("Bin %d width mismatch %d %d", op, a.W, b.W))
	}
	w := a.W
	if a.IsConst() && b.IsConst() {
		x, y := a.Val, b.Val
		m := mask(w)
		switch op {
		case OpAdd:
			return s.Const(w, x+y)
		case OpSub:
			return s.Const(w, x-y)
		case OpMul:
			return s.Const(w, x*y)
		case OpUDiv:
			if y == 0 {
				return s.Const(w, m)
			}
			return s.Const(w, x/y)
		case OpURem:
			if y == 0 {
				return s.Const(w, x)
			}
			return s.Const(w, x%y)
		case OpSDiv:
			sx, sy := signExt(x, w), signExt(y, w)
			if sy == 0 {
				if sx >= 0 {
					return s.Const(w, m)
				}
				return s.Const(w, 1)
			}
			if sy == -1 {
				return s.Const(w, uint64(-sx))
			}
			return s.Const(w, uint64(sx/sy))
		case OpSRem:
			sx, sy := signExt(x, w), signExt(y, w)
			if sy == 0 {
				return s.Const(w, x)
			}
			if sy == -1 {
				return s.Const(w, 0)
			}
			return s.Const(w, uint64(sx%sy))
		case OpBAnd:
			return s.Const(w, x&y)
		case OpBOr:
			return s.Const(w, x|y)
		case OpBXor:
			return s.Const(w, x^y)
		case OpShl:
			if y >= uint64(w) {
				return s.Const(w, 0)
			}
			return s.Const(w, x<<y)
		case OpLShr:
			if y >= uint64(w) {
				return s.Const(w, 0)
			}
			return s.Const(w, x>>y)
		case OpAShr:
			sx := signExt(x, w)
			if y >= uint64(w) {
				y = uint64(w - 1)
			}
			return s.Const(w, uint64(sx>>y))
		}
	}
	switch op {
	case OpAdd, OpBOr, OpBXor:
		if a.IsConst() && a.Val == 0 {
			return b
		}
		if b.IsConst() && b.Val == 0 {
			return a
		}
	case OpSub, OpShl, OpLShr, OpAShr:
		if b.IsConst() && b.Val == 0 {
			return a
		}
	case OpMul:
		if a.IsConst() && a.Val == 1 {
			return b
		}
		if b.IsConst() && b.Val == 1 {
			return a
		}
		if (a.IsConst() && a.Val == 0) || (b.IsConst() && b.Val == 0) {
			return s.Const(w, 0)
		}
	case OpBAnd:
		if (a.IsConst() && a.Val == 0) || (b.IsConst() && b.Val == 0) {
			return s.Const(w, 0)
		}
		if a.IsConst() && a.Val == mask(w) {
			return b
		}
		if b.IsConst() && b.Val == mask(w) {
			return a
		}
	case OpURem:
		if b.IsConst() && b.Val == 1 {
			return s.Const(w, 0)
		}
	case OpUDiv, OpSDiv:
		if b.IsConst() && b.Val == 1 {
			return a
		}
	}
	if op == OpSub && a == b {
		return s.Const(w, 0)
	}
	if op == OpBXor && a == b {
		return s.Const(w, 0)
	}
	return s.mk(op, w, 0, 0, "", a, b)
}

// Cmp builds a comparison (ult, ule, slt, sle).
func (s *TermStore) Cmp(op Op, a, b *Term) *Term {
	if a.W != b.W {
		panic("Cmp width mismatch")
	}
	if a.IsConst() && b.IsConst() {
		switch op {
		case OpULt:
			return s.Bool(a.Val < b.Val)
		case OpULe:
			return s.Bool(a.Val <= b.Val)
		case OpSLt:
			return s.Bool(a.Signed() < b.Signed())
		case OpSLe:
			return s.Bool(a.Signed() <= b.Signed())
		}
	}
	if a == b {
		return s.Bool(op == OpULe || op == OpSLe)
	}
	return s.mk(op, 0, 0, 0, "", a, b)
}

func (s *TermStore) BNot(a *Term) *Term {
	if a.IsConst() {
		return s.Const(a.W, ^a.Val)
	}
	return s.mk(OpBNot, a.W, 0, 0, "", a)
}
func (s *TermStore) Neg(a *Term) *Term {
	if a.IsConst() {
		return s.Const(a.W, -a.Val)
	}
	return s.mk(OpNeg, a.W, 0, 0, "", a)
}

func (s *TermStore) ZExt(a *Term, w int) *Term {
	if w == a.W {
		return a
	}
	if w < a.W {
		return s.Extract(a, w-1, 0)
	}
	if a.IsConst() {
		return s.Const(w, a.Val)
	}
	return s.mk(OpZExt, w, 0, w-a.W, "", a)
}
func (s *TermStore) SExt(a *Term, w int) *Term {
	if w == a.W {
		return a
	}
	if w < a.W {
		return s.Extract(a, w-1, 0)
	}
	if a.IsConst() {
		return s.Const(w, uint64(a.Signed()))
	}
	return s.mk(OpSExt, w, 0, w-a.W, "", a)
}
func (s *TermStore) Extract(a *Term, hi, lo int) *Term {
	w := hi - lo + 1
	if lo == 0 && w == a.W {
		return a
	}
	if a.IsConst() {
		return s.Const(w, a.Val>>uint(lo))
	}
	if (a.Op == OpZExt || a.Op == OpSExt) && lo == 0 && w <= a.Args[0].W {
		return s.Extract(a.Args[0], hi, lo)
	}
	if a.Op == OpZExt && lo == 0 && w > a.Args[0].W {
		return s.ZExt(a.Args[0], w)
	}
	return s.mk(OpExtract, w, 0, hi<<8|lo, "", a)
}
func (s *TermStore) Concat(hi, lo *Term) *Term {
	if hi.IsConst() && lo.IsConst() {
		return s.Const(hi.W+lo.W, hi.Val<<uint(lo.W)|lo.Val)
	}
	return s.mk(OpConcat, hi.W+lo.W, 0, 0, "", hi, lo)
}

// BoolToBV converts Bool to a w-bit 0/1.
func (s *TermStore) BoolToBV(b *Term, w int) *Term {
	return s.Ite(b, s.Const(w, 1), s.Const(w, 0))
}

// ---- floating point -----------------------------------------------------

func f64(v uint64) float64 { return math.Float64frombits(v) }
func f32(v uint64) float32 { return math.Float32frombits(uint32(v)) }

func (s *TermStore) FCmp(op Op, a, b *Term) *Term {
	if a.IsConst() && b.IsConst() {
		var x, y float64
		if a.W == 64 {
			x, y = f64(a.Val), f64(b.Val)
		} else {
			x, y = float64(f32(a.Val)), float64(f32(b.Val))
		}
		switch op {
		case OpFLt:
			return s.Bool(x < y)
		case OpFLe:
			return s.Bool(x <= y)
		case OpFEq:
			return s.Bool(x == y)
		}
	}
	return s.mk(op, 0, 0, 0, "", a, b)
}

func (s *TermStore) FIsNaN(a *Term) *Term {
	if a.IsConst() {
		if a.W == 64 {
			return s.Bool(math.IsNaN(f64(a.Val)))
		}
		return s.Bool(f32(a.Val) != f32(a.Val))
	}
	return s.mk(OpFIsNaN, 0, 0, 0, "", a)
}

func (s *TermStore) FBin(op Op, a, b *Term) *Term {
	if a.IsConst() && b.IsConst() {
		if a.W == 64 {
			x, y := f64(a.Val), f64(b.Val)
			var r float64
			switch op {
			case OpFAdd:
				r = x + y
			case OpFSub:
				r = x - y
			case OpFMul:
				r = x * y
			case OpFDiv:
				r = x / y
			}
			return s.Const(64, math.Float64bits(r))
		}
		x, y := f32(a.Val), f32(b.Val)
		var r float32
		switch op {
		case OpFAdd:
			r = x + y
		case OpFSub:
			r = x - y
		case OpFMul:
			r = x * y
		case OpFDiv:
			r = x / y
		}
		return s.Const(32, uint64(math.Float32bits(r)))
	}
	return s.mk(op, a.W, 0, 0, "", a, b)
}

func (s *TermStore) FNeg(a *Term) *Term {
	// sign-bit flip
	return s.Bin(OpBXor, a, s.Const(a.W, uint64(1)<<uint(a.W-1)))
}

// I2F converts an integer term (signed or unsigned) to a float of width fw.
func (s *TermStore) I2F(a *Term, signed bool, fw int) *Term {
	if a.IsConst() {
		var f float64
		if signed {
			f = float64(a.Signed())
		} else {
			f = float64(a.Val)
		}
		if fw == 64 {
			return s.Const(64, math.Float64bits(f))
		}
		var g float32
		if signed {
			g = float32(a.Signed())
		} else {
			g = float32(a.Val)
		}
		return s.Const(32, uint64(math.Float32bits(g)))
	}
	op := OpU2F
	if signed {
		op = OpI2F
	}
	return s.mk(op, fw, 0, 0, "", a)
}

// F2I converts a float term to an integer of width iw (round toward zero).
func (s *TermStore) F2I(a *Term, signed bool, iw int) *Term {
	if a.IsConst() {
		var f float64
		if a.W == 64 {
			f = f64(a.Val)
		} else {
			f = float64(f32(a.Val))
		}
		if signed {
			var r int64
			switch iw {
			case 64:
				r = int64(f)
			case 32:
				r = int64(int32(f))
			case 16:
				r = int64(int16(f))
			case 8:
				r = int64(int8(f))
			}
			return s.Const(iw, uint64(r))
		}
		var r uint64
		switch iw {
		case 64:
			r = uint64(f)
		case 32:
			r = uint64(uint32(f))
		case 16:
			r = uint64(uint16(f))
		case 8:
			r = uint64(uint8(f))
		}
		return s.Const(iw, r)
	}
	op := OpF2U
	if signed {
		op = OpF2I
	}
	return s.mk(op, iw, 0, 0, "", a)
}

func (s *TermStore) F2F(a *Term, fw int) *Term {
	if a.W == fw {
		return a
	}
	if a.IsConst() {
		if fw == 64 {
			return s.Const(64, math.Float64bits(float64(f32(a.Val))))
		}
		return s.Const(32, uint64(math.Float32bits(float32(f64(a.Val)))))
	}
	return s.mk(OpF2F, fw, 0, 0, "", a)
}

// UF applies an uninterpreted function; argument and result widths fix its signature.
func (s *TermStore) UF(name string, w int, args ...*Term) *Term {
	var sig strings.Builder
	sig.WriteString("(declare-fun " + name + " (")
	for i, a := range args {
		if i > 0 {
			sig.WriteByte(' ')
		}
		sig.WriteString(sortName(a.W))
	}
	sig.WriteString(") " + sortName(w) + ")")
	if old, ok := s.ufs[name]; ok && old != sig.String() {
		panic("UF " + name + " redeclared with another signature")
	}
	s.ufs[name] = sig.String()
	return s.mk(OpUF, w, 0, 0, name, args...)
}

// ---- printing -------------------------------------------------------------

func sortName(w int) string {
	if w == 0 {
		return "Bool"
	}
	return fmt.Sprintf("(_ BitVec %d)", w)
}

func constLit(w int, v uint64) string {
	if w == 0 {
		if v == 1 {
			return "true"
		}
		return "false"
	}
	if w%4 == 0 {
		return fmt.Sprintf("#x%0*x", w/4, v)
	}
	return fmt.Sprintf("#b%0*b", w, v)
}

func fpSort(w int) string {
	if w == 64 {
		return "(_ to_fp 11 53)"
	}
	return "(_ to_fp 8 24)"
}

var opNames = map[Op]string{
	OpNot: "not", OpAnd: "and", OpOr: "or", OpIte: "ite", OpEq: "=",
	OpAdd: "bvadd", OpSub: "bvsub", OpMul: "bvmul", OpUDiv: "bvudiv", OpURem: "bvurem",
	OpSDiv: "bvsdiv", OpSRem: "bvsrem", OpBAnd: "bvand", OpBOr: "bvor", OpBXor: "bvxor",
	OpBNot: "bvnot", OpNeg: "bvneg", OpShl: "bvshl", OpLShr: "bvlshr", OpAShr: "bvashr",
	OpULt: "bvult", OpULe: "bvule", OpSLt: "bvslt", OpSLe: "bvsle", OpConcat: "concat",
}

// ref is how a term is referred to inside other terms.
func (t *Term) ref() string {
	switch t.Op {
	case OpConst:
		return constLit(t.W, t.Val)
	case OpVar:
		return "|" + t.Name + "|"
	}
	return fmt.Sprintf("n%d", t.id)
}

// body renders the defining expression of a non-leaf term using refs of args.
func (t *Term) body() string {
	a := func(i int) string { return t.Args[i].ref() }
	fp := func(i int) string { return "(" + fpSort(t.Args[i].W) + " " + a(i) + ")" }
	switch t.Op {
	case OpZExt:
		return fmt.Sprintf("((_ zero_extend %d) %s)", t.Aux, a(0))
	case OpSExt:
		return fmt.Sprintf("((_ sign_extend %d) %s)", t.Aux, a(0))
	case OpExtract:
		return fmt.Sprintf("((_ extract %d %d) %s)", t.Aux>>8, t.Aux&0xff, a(0))
	case OpFLt:
		return fmt.Sprintf("(fp.lt %s %s)", fp(0), fp(1))
	case OpFLe:
		return fmt.Sprintf("(fp.leq %s %s)", fp(0), fp(1))
	case OpFEq:
		return fmt.Sprintf("(fp.eq %s %s)", fp(0), fp(1))
	case OpFIsNaN:
		return fmt.Sprintf("(fp.isNaN %s)", fp(0))
	case OpFAdd, OpFSub, OpFMul, OpFDiv:
		n := map[Op]string{OpFAdd: "fp.add", OpFSub: "fp.sub", OpFMul: "fp.mul", OpFDiv: "fp.div"}[t.Op]
		return fmt.Sprintf("(fp.to_ieee_bv (%s RNE %s %s))", n, fp(0), fp(1))
	case OpI2F:
		return fmt.Sprintf("(fp.to_ieee_bv (%s RNE %s))", fpSort(t.W), a(0))
	case OpU2F:
		if t.W == 64 {
			return fmt.Sprintf("(fp.to_ieee_bv ((_ to_fp_unsigned 11 53) RNE %s))", a(0))
		}
		return fmt.Sprintf("(fp.to_ieee_bv ((_ to_fp_unsigned 8 24) RNE %s))", a(0))
	case OpF2I:
		return fmt.Sprintf("((_ fp.to_sbv %d) RTZ %s)", t.W, fp(0))
	case OpF2U:
		return fmt.Sprintf("((_ fp.to_ubv %d) RTZ %s)", t.W, fp(0))
	case OpF2F:
		return fmt.Sprintf("(fp.to_ieee_bv (%s RNE %s))", fpSort(t.W), fp(0))
	case OpUF:
		if len(t.Args) == 0 {
			return t.Name
		}
		var sb strings.Builder
		sb.WriteString("(" + t.Name)
		for i := range t.Args {
			sb.WriteString(" " + a(i))
		}
		sb.WriteString(")")
		return sb.String()
	}
	n, ok := opNames[t.Op]
	if !ok {
		panic(fmt.Sprintf("body: op %d", t.Op))
	}
	var sb strings.Builder
	sb.WriteString("(" + n)
	for i := range t.Args {
		sb.WriteString(" " + a(i))
	}
	sb.WriteString(")")
	return sb.String()
}

// ---- concrete evaluation under a model -----------------------------------

// evalDefault is Eval with unassigned variables read as 0 (they are
// unconstrained so far, so any value extends the model).
func (t *Term) evalDefault(model map[string]uint64, memo map[*Term]uint64) (uint64, bool) {
	return t.eval(model, memo, true)
}

func (t *Term) Eval(model map[string]uint64, memo map[*Term]uint64) (uint64, bool) {
	return t.eval(model, memo, false)
}

// eval evaluates t under an assignment of variables; ok=false if the term
// contains an uninterpreted function or an unassigned variable.
func (t *Term) eval(model map[string]uint64, memo map[*Term]uint64, dflt bool) (uint64, bool) {
	if v, ok := memo[t]; ok {
		return v, true
	}
	var r uint64
	switch t.Op {
	case OpConst:
		return t.Val, true
	case OpVar:
		v, ok := model[t.Name]
		if !ok {
			if dflt {
				return 0, true
			}
			return 0, false
		}
		return v & mask(t.W), true
	case OpUF:
		return 0, false
	}
	av := make([]uint64, len(t.Args))
	for i, a := range t.Args {
		// lazy evaluation for ite/and/or is not needed: total functions
		v, ok := a.eval(model, memo, dflt)
		if !ok {
			return 0, false
		}
		av[i] = v
	}
	b2u := func(b bool) uint64 {
		if b {
			return 1
		}
		return 0
	}
	w := t.W
	aw := 0
	if len(t.Args) > 0 {
		aw = t.Args[0].W
	}
	fl := func(i int) float64 {
		if t.Args[i].W == 64 {
			return f64(av[i])
		}
		return float64(f32(av[i]))
	}
	switch t.Op {
	case OpNot:
		r = av[0] ^ 1
	case OpAnd:
		r = av[0] & av[1]
	case OpOr:
		r = av[0] | av[1]
	case OpIte:
		if av[0] == 1 {
			r = av[1]
		} else {
			r = av[2]
		}
	case OpEq:
		r = b2u(av[0] == av[1])
	case OpULt:
		r = b2u(av[0] < av[1])
	case OpULe:
		r = b2u(av[0] <= av[1])
	case OpSLt:
		r = b2u(signExt(av[0], aw) < signExt(av[1], aw))
	case OpSLe:
		r = b2u(signExt(av[0], aw) <= signExt(av[1], aw))
	case OpAdd, OpSub, OpMul, OpUDiv, OpURem, OpSDiv, OpSRem, OpBAnd, OpBOr, OpBXor, OpShl, OpLShr, OpAShr:
		ts := NewTermStore()
		r = ts.Bin(t.Op, ts.Const(aw, av[0]), ts.Const(aw, av[1])).Val
	case OpBNot:
		r = ^av[0] & mask(w)
	case OpNeg:
		r = -av[0] & mask(w)
	case OpZExt:
		r = av[0]
	case OpSExt:
		r = uint64(signExt(av[0], aw)) & mask(w)
	case OpExtract:
		r = (av[0] >> uint(t.Aux&0xff)) & mask(w)
	case OpConcat:
		r = av[0]<<uint(t.Args[1].W) | av[1]
	case OpFLt:
		r = b2u(fl(0) < fl(1))
	case OpFLe:
		r = b2u(fl(0) <= fl(1))
	case OpFEq:
		r = b2u(fl(0) == fl(1))
	case OpFIsNaN:
		r = b2u(math.IsNaN(fl(0)))
	case OpFAdd, OpFSub, OpFMul, OpFDiv:
		ts := NewTermStore()
		r = ts.FBin(t.Op, ts.Const(aw, av[0]), ts.Const(aw, av[1])).Val
	case OpI2F:
		ts := NewTermStore()
		r = ts.I2F(ts.Const(aw, av[0]), true, w).Val
	case OpU2F:
		ts := NewTermStore()
		r = ts.I2F(ts.Const(aw, av[0]), false, w).Val
	case OpF2I:
		ts := NewTermStore()
		r = ts.F2I(ts.Const(aw, av[0]), true, w).Val
	case OpF2U:
		ts := NewTermStore()
		r = ts.F2I(ts.Const(aw, av[0]), false, w).Val
	case OpF2F:
		ts := NewTermStore()
		r = ts.F2F(ts.Const(aw, av[0]), w).Val
	default:
		return 0, false
	}
	memo[t] = r
	return r, true
}

var _ = bits.Len
