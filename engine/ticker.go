package main

import (
	"go/types"

	"golang.org/x/tools/go/ssa"
)

type tickerState struct {
	ch      *Chan
	stopped bool
}

// newTicker models time.NewTicker: an environment thread delivers up to
// m.maxTicks ticks (each a scheduling point) and then ends.
func (m *Machine) newTicker(th *Thread, fn *ssa.Function) Value {
	return m.newTickerN(th, fn.Signature.Results().At(0).Type(), m.maxTicks)
}

// newTickerN builds a *time.Ticker / *time.Timer (both are structs with a channel field C)
// whose environment thread delivers up to n ticks, each at an arbitrary scheduling point.
func (m *Machine) newTickerN(th *Thread, pt types.Type, n int) Value {
	st := deref(pt).Underlying().(*types.Struct)
	cell := new(Value)
	*cell = m.zero(deref(pt))
	m.chanIDs++
	var timeT types.Type
	for i := 0; i < st.NumFields(); i++ {
		if st.Field(i).Name() == "C" {
			timeT = st.Field(i).Type().Underlying().(*types.Chan).Elem()
			ch := &Chan{cap: 1, elemT: timeT, id: m.chanIDs}
			(*cell).(Struct)[i] = ch
			tk := &tickerState{ch: ch}
			m.tickers[cell] = tk
			m.newThread("ticker", func(t *Thread) {
				for i := 0; i < n; i++ {
					t.schedPoint("tick")
					if tk.stopped {
						return
					}
					if len(ch.buf) < ch.cap {
						t.tick()
						ch.buf = append(ch.buf, chanItem{m.mkTime(timeT, m.ts.Const(64, 0)), append([]int{}, t.vc...)})
					}
				}
			})
		}
	}
	return cell
}
