package main

import "testing"

// reference values printed by github.com/twmb/murmur3 v1.1.8 (StringSum64)
func TestMurmur3Sum64(t *testing.T) {
	ref := map[string]uint64{
		"": 0, "a": 9607679276477937801, "ab": 10631611042442844974, "abc": 13012657714217449575,
		"abcdefg": 12019315343699666073, "abcdefgh": 14738604482492337154, "abcdefghi": 380484692874131812,
		"0123456789abcdef": 5467490433528156583, "0123456789abcdefg": 10246358950979434974,
		"the quick brown fox jumps over the lazy dog": 13611261254754469555,
		"id=second-4289": 1334238724248588379,
		"\x00\xff\x80":   17856259876310944960,
	}
	for s, want := range ref {
		if got := murmur3Sum64([]byte(s)); got != want {
			t.Errorf("%q: got %d want %d", s, got, want)
		}
	}
}
