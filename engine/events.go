package main

// eventRecorder is layer A (schedule as SMT variables); filled in later.
type eventRecorder struct{}

func (e *eventRecorder) atomic(th *Thread, kind string, p *Value, args []Value) (Value, bool) {
	return nil, false
}
