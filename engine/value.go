package main

// Interpreter values.
//
//   *Term            bool, all integer kinds, float32/64 (IEEE bits), uintptr
//   Str              string (concrete, or list of symbolic bytes, or opaque)
//   Struct, Array    aggregates ([]Value; addressable slots)
//   *Value           pointer (nil pointer = (*Value)(nil))
//   Slice            Go slice of slots (nil slice = nil)
//   *Map, *Chan      reference types (nil = typed nil pointer)
//   Iface            interface value (T==nil: nil interface)
//   *Closure         function value (nil = nil func)
//   Tuple            multiple results
//   *MapIter,*StrIter iterators
//   UnsafePtr        result of converting a pointer to unsafe.Pointer

import (
	"fmt"
	"go/types"
	"strings"

	"golang.org/x/tools/go/ssa"
)

type Value interface{}

type Struct []Value
type Array []Value
type Slice []Value
type Tuple []Value

type Iface struct {
	T types.Type
	V Value
}

type Closure struct {
	Fn      *ssa.Function
	Env     []Value
	Builtin *ssa.Builtin
	Native  func(th *Thread, args []Value) Value // engine-provided function value
}

type UnsafePtr struct {
	P *Value
	T types.Type // pointee type of the original pointer
}

// Str is a Go string.  Sym==nil: concrete C.  Otherwise Sym holds one 8-bit
// term per byte.  Opaque!=nil: symbolic length, abstract content.
type Str struct {
	C      string
	Sym    []*Term
	Opaque *OpaqueStr
}

// OpaqueStr is a sequence of chunks; only its length can be observed.
type OpaqueStr struct {
	Len  *Term // 64-bit
	Segs []Seg // the pieces the string was concatenated from
}

// Seg is one piece of an opaque string: literal/symbolic bytes (ID == ""), a
// rendering token (Tok != nil: the output of an uninterpreted rendering
// function such as %.6f of a symbolic float, identified by the 64-bit token
// term) or a blob of abstract content (only its length is known).
type Seg struct {
	Bytes []*Term
	ID    string
	Tok   *Term
	Len   *Term
}

type MapEntry struct {
	K, V    Value
	Deleted bool
}

type Map struct {
	KeyT    types.Type
	Entries []*MapEntry
	id      int
	cell    *Value
}

type MapIter struct {
	m     *Map
	snap  []*MapEntry
	order []int
	pos   int
}

type StrIter struct {
	s   Str
	pos int
}

type Chan struct {
	buf    []Value
	cap    int
	closed bool
	elemT  types.Type
	id     int
	// unbuffered rendezvous support
	closeVC []int
}

func (s Str) Len() int {
	if s.Opaque != nil {
		panic("len of opaque string needs term")
	}
	if s.Sym != nil {
		return len(s.Sym)
	}
	return len(s.C)
}

func (s Str) IsConcrete() bool { return s.Sym == nil && s.Opaque == nil }

func (m *Machine) strBytes(s Str) []*Term {
	if s.Opaque != nil {
		m.unsupported("content of an opaque string is observed")
	}
	if s.Sym != nil {
		return s.Sym
	}
	out := make([]*Term, len(s.C))
	for i := 0; i < len(s.C); i++ {
		out[i] = m.ts.Const(8, uint64(s.C[i]))
	}
	return out
}

// mkStr builds a Str from byte terms, collapsing to concrete when possible.
func mkStr(bs []*Term) Str {
	all := true
	for _, b := range bs {
		if !b.IsConst() {
			all = false
			break
		}
	}
	if all {
		var sb strings.Builder
		for _, b := range bs {
			sb.WriteByte(byte(b.Val))
		}
		return Str{C: sb.String()}
	}
	cp := make([]*Term, len(bs))
	copy(cp, bs)
	return Str{Sym: cp}
}

// ---- type helpers -------------------------------------------------------------

type scalarKind struct {
	w      int // 0 = bool
	signed bool
	float  bool
}

func scalarOf(t types.Type) (scalarKind, bool) {
	b, ok := t.Underlying().(*types.Basic)
	if !ok {
		return scalarKind{}, false
	}
	switch b.Kind() {
	case types.Bool, types.UntypedBool:
		return scalarKind{0, false, false}, true
	case types.Int, types.Int64, types.UntypedInt:
		return scalarKind{64, true, false}, true
	case types.Int32, types.UntypedRune:
		return scalarKind{32, true, false}, true
	case types.Int16:
		return scalarKind{16, true, false}, true
	case types.Int8:
		return scalarKind{8, true, false}, true
	case types.Uint, types.Uint64, types.Uintptr:
		return scalarKind{64, false, false}, true
	case types.Uint32:
		return scalarKind{32, false, false}, true
	case types.Uint16:
		return scalarKind{16, false, false}, true
	case types.Uint8:
		return scalarKind{8, false, false}, true
	case types.Float64, types.UntypedFloat:
		return scalarKind{64, true, true}, true
	case types.Float32:
		return scalarKind{32, true, true}, true
	}
	return scalarKind{}, false
}

func isString(t types.Type) bool {
	b, ok := t.Underlying().(*types.Basic)
	return ok && (b.Kind() == types.String || b.Kind() == types.UntypedString)
}

func deref(t types.Type) types.Type {
	if p, ok := t.Underlying().(*types.Pointer); ok {
		return p.Elem()
	}
	panic(fmt.Sprintf("deref of non-pointer %v", t))
}

// zero returns the zero value of type t.
func (m *Machine) zero(t types.Type) Value {
	switch u := t.Underlying().(type) {
	case *types.Basic:
		if u.Kind() == types.String || u.Kind() == types.UntypedString {
			return Str{}
		}
		if u.Kind() == types.UnsafePointer {
			return UnsafePtr{}
		}
		if u.Kind() == types.UntypedNil {
			return Iface{}
		}
		k, ok := scalarOf(t)
		if !ok {
			m.unsupported("zero of basic type " + t.String())
		}
		if k.w == 0 {
			return m.ts.Bool(false)
		}
		return m.ts.Const(k.w, 0)
	case *types.Struct:
		s := make(Struct, u.NumFields())
		for i := range s {
			s[i] = m.zero(u.Field(i).Type())
		}
		return s
	case *types.Array:
		a := make(Array, u.Len())
		for i := range a {
			a[i] = m.zero(u.Elem())
		}
		return a
	case *types.Pointer:
		return (*Value)(nil)
	case *types.Slice:
		return Slice(nil)
	case *types.Map:
		return (*Map)(nil)
	case *types.Chan:
		return (*Chan)(nil)
	case *types.Interface:
		return Iface{}
	case *types.Signature:
		return (*Closure)(nil)
	case *types.Tuple:
		tu := make(Tuple, u.Len())
		for i := range tu {
			tu[i] = m.zero(u.At(i).Type())
		}
		return tu
	}
	m.unsupported("zero of type " + t.String())
	return nil
}

// copyVal returns a deep copy of aggregates (value semantics).
func copyVal(v Value) Value {
	switch v := v.(type) {
	case Struct:
		c := make(Struct, len(v))
		for i, f := range v {
			c[i] = copyVal(f)
		}
		return c
	case Array:
		c := make(Array, len(v))
		for i, f := range v {
			c[i] = copyVal(f)
		}
		return c
	}
	return v
}

// store writes v to *addr keeping the identity of aggregate slots.
func store(addr *Value, v Value) {
	switch rhs := v.(type) {
	case Struct:
		lhs, ok := (*addr).(Struct)
		if !ok || len(lhs) != len(rhs) {
			*addr = copyVal(v)
			return
		}
		for i := range lhs {
			store(&lhs[i], rhs[i])
		}
	case Array:
		lhs, ok := (*addr).(Array)
		if !ok || len(lhs) != len(rhs) {
			*addr = copyVal(v)
			return
		}
		for i := range lhs {
			store(&lhs[i], rhs[i])
		}
	default:
		*addr = v
	}
}

func load(addr *Value) Value { return copyVal(*addr) }

// describe renders a value for diagnostics and evidence samples.
func describe(v Value) string {
	switch v := v.(type) {
	case *Term:
		if v == nil {
			return "<nil term>"
		}
		if v.IsConst() {
			if v.W == 0 {
				return fmt.Sprint(v.Val == 1)
			}
			return fmt.Sprintf("%d", v.Signed())
		}
		return "sym:" + sortName(v.W)
	case Str:
		if v.Opaque != nil {
			return "opaque-string"
		}
		if v.Sym != nil {
			return fmt.Sprintf("symstr(len=%d)", len(v.Sym))
		}
		return fmt.Sprintf("%q", v.C)
	case Struct:
		parts := make([]string, len(v))
		for i, f := range v {
			parts[i] = describe(f)
		}
		return "{" + strings.Join(parts, ",") + "}"
	case Array:
		return fmt.Sprintf("array[%d]", len(v))
	case Slice:
		return fmt.Sprintf("slice[len=%d]", len(v))
	case *Value:
		if v == nil {
			return "nil"
		}
		return fmt.Sprintf("ptr(%p)", v)
	case Iface:
		if v.T == nil {
			return "nil-iface"
		}
		return "iface(" + v.T.String() + ")"
	case *Map:
		if v == nil {
			return "nil-map"
		}
		return fmt.Sprintf("map#%d", v.id)
	case *Closure:
		if v == nil {
			return "nil-func"
		}
		if v.Fn != nil {
			return "func " + v.Fn.String()
		}
		return "func"
	case Tuple:
		parts := make([]string, len(v))
		for i, f := range v {
			parts[i] = describe(f)
		}
		return "(" + strings.Join(parts, ",") + ")"
	}
	return fmt.Sprintf("%T", v)
}
