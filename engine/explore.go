package main

// Stateless path exploration: every path is one run of the harness following
// a decision vector; alternatives discovered on the way are queued.

import (
	"fmt"
	"os"
	"sort"
	"strings"
	"sync"
	"time"

	"golang.org/x/tools/go/ssa"
)

type ExploreConfig struct {
	Workers    int
	MaxPaths   int
	MaxSeconds float64
	Run        RunConfig
	SolverCmd  []string
	WitnessMax int
	Seed       int64
	SolverLog  string
	SingleVec  []int64 // replay exactly this decision vector, nothing else
}

type Witness struct {
	Vec     []int64           `json:"vec"`
	Model   map[string]uint64 `json:"model"`
	Choices map[string]int64  `json:"choices"`
	Emits   []string          `json:"emits"`
}

type HarnessResult struct {
	Harness         string         `json:"harness"`
	Paths           int            `json:"paths"`
	PathsDone       int            `json:"paths_done"`
	Aborted         map[string]int `json:"aborted"`
	AbortReasons    []string       `json:"abort_reasons"`
	Decisions       int            `json:"decisions"`
	Steps           int            `json:"steps"`
	Obligations     int            `json:"obligations"`
	Discharged      int            `json:"discharged"`
	TrivialOK       int            `json:"trivial_ok"`
	Nontrivial      int            `json:"distinct_nontrivial_paths"`
	Failures        []*Failure     `json:"failures"`
	FailureCount    map[string]int `json:"failure_count"`
	Inconclusive    []string       `json:"inconclusive"`
	Reached         map[string]int `json:"reached"`
	Funcs           []string       `json:"funcs"`
	Assumes         []string       `json:"assumes"`
	Witnesses       []*Witness     `json:"witnesses"`
	Sat             int            `json:"sat"`
	Unsat           int            `json:"unsat"`
	Unknown         int            `json:"unknown"`
	OneShot         int            `json:"one_shot"`
	SolverSeconds   float64        `json:"solver_s"`
	SolverErrors    []string       `json:"solver_errors"`
	WallSeconds     float64        `json:"wall_s"`
	Truncated       bool           `json:"truncated"`
	EngineErrors    []string       `json:"engine_errors"`
	UnwindFailures  int            `json:"unwinding_failures"`
	MapOrderPaths   int            `json:"map_order_dependent_paths"`
	UnknownBranches int            `json:"unknown_branches"`
}

func newMachine(env *Env, solver *Solver, cfg *RunConfig, vec []int64) *Machine {
	m := &Machine{
		prog: env.prog, env: env, ts: NewTermStore(), solver: solver, cfg: cfg,
		globals:  map[*ssa.Global]*Value{},
		vec:      append([]int64{}, vec...),
		varCount: map[string]int{}, choices: map[string]int64{},
		initDone: map[*ssa.Package]bool{},
		pool:     map[*Value][]Value{}, poolVC: map[*Value][]int{},
		mutexes: map[*Value]*mutexState{}, wgStates: map[*Value]*wgState{},
		hashBuf: map[*Value][]*Term{}, atomVC: map[*Value][]int{},
		tickers: map[*Value]*tickerState{}, shadow: map[*Value]*shadow{},
		sched:    make(chan schedEvent),
		res:      &PathResult{Funcs: map[string]bool{}},
		maxTicks: 1,
	}
	return m
}

// runPath executes the harness along vec.
func (m *Machine) runPath(harness *ssa.Function) (res *PathResult) {
	res = m.res
	m.solver.Reset()
	defer func() {
		if r := recover(); r != nil {
			switch r := r.(type) {
			case abortRun:
				res.Status = "aborted:" + r.kind
				res.Reason = r.reason
			default:
				res.Status = "aborted:engine"
				res.EngineErr = fmt.Sprintf("%v\n%s", r, goStack())
			}
		}
		res.Vec = append([]int64{}, m.vec[:min(m.pos, len(m.vec))]...)
		res.NewVecs = m.newVecs
		res.Steps = m.steps
	}()
	main := m.newThread("main", func(th *Thread) {
		// package initialisers
		if init := m.env.mainPkg.Func("init"); init != nil {
			th.call(nil, 0, &Closure{Fn: init}, nil)
		}
		th.call(nil, 0, &Closure{Fn: harness}, nil)
	})
	m.runScheduler(main)
	res.Status = "done"
	if m.cfg.CheckWitness {
		m.makeWitness()
	}
	return res
}

// makeWitness obtains a model of the path condition and evaluates the emit log.
func (m *Machine) makeWitness() {
	if m.solver.Check(m.ts) != Sat {
		return
	}
	model := m.modelNow()
	// evaluate emit terms
	var lines []string
	memo := map[*Term]uint64{}
	evalT := func(t *Term) (uint64, bool) {
		if v, ok := t.Eval(model, memo); ok {
			return v, true
		}
		// fall back on the solver
		return m.evalInSolver(t), true
	}
	for _, e := range m.emits {
		var sb strings.Builder
		sb.WriteString(e.Tag)
		for _, v := range e.Vals {
			sb.WriteByte('|')
			switch v := v.(type) {
			case *Term:
				x, _ := evalT(v)
				if v.W == 0 {
					fmt.Fprintf(&sb, "%v", x == 1)
				} else {
					fmt.Fprintf(&sb, "%d", x)
				}
			case Str:
				if v.Opaque != nil {
					sb.WriteString("<opaque>")
					continue
				}
				bs := m.strBytes(v)
				raw := make([]byte, len(bs))
				for i, b := range bs {
					x, _ := evalT(b)
					raw[i] = byte(x)
				}
				fmt.Fprintf(&sb, "%x", raw)
			default:
				sb.WriteString(describe(v))
			}
		}
		lines = append(lines, sb.String())
	}
	ch := map[string]int64{}
	for k, v := range m.choices {
		ch[k] = v
	}
	m.res.Witness = model
	m.res.WitChoices = ch
	m.res.EmitEval = lines
}

func min(a, b int) int {
	if a < b {
		return a
	}
	return b
}

// Explore runs all paths of a harness.
func Explore(env *Env, harnessName string, cfg *ExploreConfig) *HarnessResult {
	t0 := time.Now()
	hr := &HarnessResult{Harness: harnessName, Aborted: map[string]int{}, Reached: map[string]int{}, FailureCount: map[string]int{}}
	fn := env.mainPkg.Func(harnessName)
	if fn == nil {
		hr.EngineErrors = append(hr.EngineErrors, "harness function not found: "+harnessName)
		return hr
	}
	var mu sync.Mutex
	cond := sync.NewCond(&mu)
	queue := [][]int64{{}}
	if cfg.SingleVec != nil {
		queue = [][]int64{cfg.SingleVec}
	}
	active := 0
	funcs := map[string]bool{}
	assumes := map[string]bool{}
	incon := map[string]bool{}
	stop := false
	deadline := t0.Add(time.Duration(cfg.MaxSeconds * float64(time.Second)))

	var wg sync.WaitGroup
	for w := 0; w < cfg.Workers; w++ {
		wg.Add(1)
		go func(w int) {
			defer wg.Done()
			logp := ""
			if cfg.SolverLog != "" {
				logp = fmt.Sprintf("%s.%s.%d.smt2", cfg.SolverLog, harnessName, w)
			}
			solver, err := NewSolver(cfg.SolverCmd, cfg.Run.SolverMs, logp)
			if err != nil {
				mu.Lock()
				hr.EngineErrors = append(hr.EngineErrors, "cannot start solver: "+err.Error())
				stop = true
				cond.Broadcast()
				mu.Unlock()
				return
			}
			defer func() {
				mu.Lock()
				hr.Sat += solver.NSat
				hr.Unsat += solver.NUnsat
				hr.Unknown += solver.NUnknown
				hr.OneShot += solver.NOneShot
				hr.SolverSeconds += solver.Time.Seconds()
				for _, e := range solver.Errors {
					if len(hr.SolverErrors) < 20 {
						hr.SolverErrors = append(hr.SolverErrors, e)
					}
				}
				mu.Unlock()
				solver.Close()
			}()
			for {
				mu.Lock()
				for len(queue) == 0 && active > 0 && !stop {
					cond.Wait()
				}
				if stop || (len(queue) == 0 && active == 0) {
					cond.Broadcast()
					mu.Unlock()
					return
				}
				vec := queue[len(queue)-1]
				queue = queue[:len(queue)-1]
				active++
				wantWitness := len(hr.Witnesses) < cfg.WitnessMax
				mu.Unlock()

				rc := cfg.Run
				rc.CheckWitness = wantWitness
				m := newMachine(env, solver, &rc, vec)
				res := m.runPath(fn)

				mu.Lock()
				active--
				hr.Paths++
				hr.Decisions += res.Decisions
				hr.Steps += res.Steps
				hr.Obligations += res.Obligations
				hr.Discharged += res.Discharged
				hr.TrivialOK += res.TrivialOK
				if res.Nontrivial {
					hr.Nontrivial++
				}
				hr.UnknownBranches += res.UnknownBranches
				if res.MapOrderDependent {
					hr.MapOrderPaths++
				}
				if res.Status == "done" {
					hr.PathsDone++
				} else {
					k := strings.TrimPrefix(res.Status, "aborted:")
					hr.Aborted[k]++
					if k == "unwind" || k == "budget" {
						hr.UnwindFailures++
					}
					if k == "engine" {
						if len(hr.EngineErrors) < 5 {
							hr.EngineErrors = append(hr.EngineErrors, res.EngineErr)
						}
					} else if k != "assume" && k != "panic" && k != "deadlock" {
						if len(hr.AbortReasons) < 20 {
							hr.AbortReasons = append(hr.AbortReasons, k+": "+res.Reason)
						}
					}
				}
				for _, f := range res.Failures {
					key := f.Kind + "|" + f.Label + "|" + f.Class
					hr.FailureCount[key]++
					if hr.FailureCount[key] <= 3 {
						hr.Failures = append(hr.Failures, f)
					}
				}
				for _, r := range res.Reached {
					hr.Reached[r]++
				}
				for f := range res.Funcs {
					funcs[f] = true
				}
				for _, a := range res.Assumes {
					assumes[a] = true
				}
				for _, s := range res.Inconclusive {
					incon[s] = true
				}
				if res.Witness != nil && len(hr.Witnesses) < cfg.WitnessMax {
					hr.Witnesses = append(hr.Witnesses, &Witness{Vec: res.Vec, Model: res.Witness, Choices: res.WitChoices, Emits: res.EmitEval})
				}
				if cfg.SingleVec == nil {
					queue = append(queue, res.NewVecs...)
				}
				if hr.Paths >= cfg.MaxPaths || time.Now().After(deadline) {
					if len(queue) > 0 || active > 0 {
						hr.Truncated = true
					}
					stop = true
				}
				cond.Broadcast()
				mu.Unlock()
			}
		}(w)
	}
	wg.Wait()
	for f := range funcs {
		hr.Funcs = append(hr.Funcs, f)
	}
	sort.Strings(hr.Funcs)
	for a := range assumes {
		hr.Assumes = append(hr.Assumes, a)
	}
	sort.Strings(hr.Assumes)
	for s := range incon {
		hr.Inconclusive = append(hr.Inconclusive, s)
	}
	sort.Strings(hr.Inconclusive)
	hr.WallSeconds = time.Since(t0).Seconds()
	_ = os.Stderr
	return hr
}
