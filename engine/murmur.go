package main

import "math/bits"

// murmur3Sum64 is MurmurHash3_x64_128 with seed 0, first half - what
// github.com/twmb/murmur3.Sum64 / StringSum64 return.  Used for inputs that are entirely
// concrete when a harness asks for concrete hashes (verifrt.ConcreteHashes); validated against
// the library on a table of strings (engine/murmur_test.go).
func murmur3Sum64(data []byte) uint64 {
	const (
		c1 = 0x87c37b91114253d5
		c2 = 0x4cf5ad432745937f
	)
	var h1, h2 uint64
	n := len(data)
	nb := n / 16
	le := func(b []byte) uint64 {
		return uint64(b[0]) | uint64(b[1])<<8 | uint64(b[2])<<16 | uint64(b[3])<<24 |
			uint64(b[4])<<32 | uint64(b[5])<<40 | uint64(b[6])<<48 | uint64(b[7])<<56
	}
	for i := 0; i < nb; i++ {
		k1 := le(data[i*16:])
		k2 := le(data[i*16+8:])
		k1 *= c1
		k1 = bits.RotateLeft64(k1, 31)
		k1 *= c2
		h1 ^= k1
		h1 = bits.RotateLeft64(h1, 27)
		h1 += h2
		h1 = h1*5 + 0x52dce729
		k2 *= c2
		k2 = bits.RotateLeft64(k2, 33)
		k2 *= c1
		h2 ^= k2
		h2 = bits.RotateLeft64(h2, 31)
		h2 += h1
		h2 = h2*5 + 0x38495ab5
	}
	tail := data[nb*16:]
	var k1, k2 uint64
	switch len(tail) & 15 {
	case 15:
		k2 ^= uint64(tail[14]) << 48
		fallthrough
	case 14:
		k2 ^= uint64(tail[13]) << 40
		fallthrough
	case 13:
		k2 ^= uint64(tail[12]) << 32
		fallthrough
	case 12:
		k2 ^= uint64(tail[11]) << 24
		fallthrough
	case 11:
		k2 ^= uint64(tail[10]) << 16
		fallthrough
	case 10:
		k2 ^= uint64(tail[9]) << 8
		fallthrough
	case 9:
		k2 ^= uint64(tail[8])
		k2 *= c2
		k2 = bits.RotateLeft64(k2, 33)
		k2 *= c1
		h2 ^= k2
		fallthrough
	case 8:
		k1 ^= uint64(tail[7]) << 56
		fallthrough
	case 7:
		k1 ^= uint64(tail[6]) << 48
		fallthrough
	case 6:
		k1 ^= uint64(tail[5]) << 40
		fallthrough
	case 5:
		k1 ^= uint64(tail[4]) << 32
		fallthrough
	case 4:
		k1 ^= uint64(tail[3]) << 24
		fallthrough
	case 3:
		k1 ^= uint64(tail[2]) << 16
		fallthrough
	case 2:
		k1 ^= uint64(tail[1]) << 8
		fallthrough
	case 1:
		k1 ^= uint64(tail[0])
		k1 *= c1
		k1 = bits.RotateLeft64(k1, 31)
		k1 *= c2
		h1 ^= k1
	}
	h1 ^= uint64(n)
	h2 ^= uint64(n)
	h1 += h2
	h2 += h1
	fmix := func(k uint64) uint64 {
		k ^= k >> 33
		k *= 0xff51afd7ed558ccd
		k ^= k >> 33
		k *= 0xc4ceb9fe1a85ec53
		k ^= k >> 33
		return k
	}
	h1 = fmix(h1)
	h2 = fmix(h2)
	h1 += h2
	return h1
}
