//go:build verif

package tally

import (
	"math"
	"time"

	"github.com/uber-go/tally/v4/internal/verifrt"
)

// VerifC03Value: value histogram, n symbolic finite bounds, one symbolic sample.
func VerifC03Value() {
	n := verifrt.Choose("n", 4)
	c03Value(n)
}

func VerifC03Value4() { c03Value(4) }
func VerifC03Value5() { c03Value(5) }

func c03Value(n int) {
	spec := make(ValueBuckets, n)
	for i := range spec {
		spec[i] = verifrt.Float64("bound")
		verifrt.Assume(finite(spec[i]))
	}
	orig := make([]uint64, n)
	for i := range spec {
		orig[i] = fbits(spec[i])
	}
	rec := &vReporter{}
	storage := newBucketStorage(valueHistogramType, spec)
	h := newHistogram(valueHistogramType, "h", nil, rec, storage, nil)

	nb := len(h.buckets)
	verifrt.Assert("c03.bucket-count", (n == 0 && nb == 1) || (n > 0 && nb == n+1))
	// tiling of the delivered bounds
	for i := 0; i < nb; i++ {
		lo := valueLowerBound(h.buckets, i)
		hi := h.buckets[i].valueUpperBound
		if i == 0 {
			verifrt.Assert("c03.first-lower-is-min", fbits(lo) == fbits(-math.MaxFloat64))
		} else {
			verifrt.Assert("c03.lower-equals-prev-upper", fbits(lo) == fbits(h.buckets[i-1].valueUpperBound))
			verifrt.Assert("c03.upper-nondecreasing", h.buckets[i-1].valueUpperBound <= hi)
		}
		if i == nb-1 {
			verifrt.Assert("c03.last-upper-is-max", fbits(hi) == fbits(math.MaxFloat64))
		}
	}
	// upper bounds (without the terminal one) are a permutation of the spec
	for i := 0; i < n; i++ {
		var inSpec, inUpper int64
		for j := 0; j < n; j++ {
			inSpec += b2i(orig[j] == fbits(h.buckets[i].valueUpperBound))
			inUpper += b2i(fbits(h.buckets[j].valueUpperBound) == fbits(h.buckets[i].valueUpperBound))
		}
		verifrt.Assert("c03.bounds-are-permutation-of-spec", inSpec == inUpper)
	}
	// the caller's slice is untouched
	for i := range spec {
		verifrt.Assert("c03.caller-slice-unchanged", fbits(spec[i]) == orig[i])
	}

	v := verifrt.Float64("sample")
	isNaN := verifrt.IsNaN(v)
	verifrt.Class("sample-nonfinite", verifrt.Or(isNaN, verifrt.Not(finite(v))))
	h.RecordDuration(time.Duration(verifrt.Int64("ignored-duration")))
	h.RecordValue(v)

	var total int64
	for i := 0; i < nb; i++ {
		cnt := h.samples[i].counter.snapshot()
		total += cnt
		ge := h.buckets[i].valueUpperBound >= v
		first := ge
		if i > 0 {
			first = verifrt.And(ge, verifrt.Not(h.buckets[i-1].valueUpperBound >= v))
		}
		verifrt.Assert("c03.sample-in-least-bucket-geq", verifrt.Implies(v <= math.MaxFloat64, cnt == b2i(first)))
		if i == nb-1 {
			verifrt.Assert("c03.plus-inf-in-last", verifrt.Implies(v > math.MaxFloat64, cnt == 1))
		}
	}
	verifrt.Assert("c03.exactly-one-bucket", verifrt.Implies(verifrt.Not(isNaN), total == 1))
	verifrt.Assert("c03.nan-at-most-one", total <= 1)

	// delivery: per-bucket counts with the bounds of that bucket, adding up
	h.report("h", nil, rec)
	var delivered int64
	for _, c := range rec.calls {
		verifrt.Assert("c03.delivery-kind", c.kind == "hv")
		delivered += c.i
		var match int64
		for i := 0; i < nb; i++ {
			match += b2i(verifrt.And(verifrt.And(fbits(c.lo) == fbits(valueLowerBound(h.buckets, i)),
				fbits(c.hi) == fbits(h.buckets[i].valueUpperBound)), c.i == h.samplesDeliveredRef(i, v)))
		}
		verifrt.Assert("c03.delivered-bounds-match-a-bucket", match >= 1)
	}
	verifrt.Assert("c03.delivered-total", delivered == total)
	// second report delivers nothing
	k := len(rec.calls)
	h.report("h", nil, rec)
	verifrt.Assert("c03.no-redelivery", len(rec.calls) == k)
	verifrt.Reach("c03.value.end")
}

// samplesDeliveredRef: expected delivery for bucket i after one sample v.
func (h *histogram) samplesDeliveredRef(i int, v float64) int64 {
	ge := h.buckets[i].valueUpperBound >= v
	first := ge
	if i > 0 {
		first = verifrt.And(ge, verifrt.Not(h.buckets[i-1].valueUpperBound >= v))
	}
	last := i == len(h.buckets)-1
	// +Inf and NaN: only the last bucket may take it
	return verifrt.IteInt64(v <= math.MaxFloat64, b2i(first), b2i(last))
}

// VerifC03Duration: duration histogram, n symbolic bounds, one symbolic sample.
func VerifC03Duration() {
	n := verifrt.Choose("n", 4)
	c03Duration(n)
}

func c03Duration(n int) {
	spec := make(DurationBuckets, n)
	for i := range spec {
		spec[i] = time.Duration(verifrt.Int64("bound"))
	}
	orig := make([]time.Duration, n)
	copy(orig, spec)
	rec := &vReporter{}
	storage := newBucketStorage(durationHistogramType, spec)
	h := newHistogram(durationHistogramType, "h", nil, rec, storage, nil)
	nb := len(h.buckets)
	verifrt.Assert("c03d.bucket-count", (n == 0 && nb == 1) || (n > 0 && nb == n+1))
	for i := 0; i < nb; i++ {
		lo := durationLowerBound(h.buckets, i)
		hi := h.buckets[i].durationUpperBound
		if i == 0 {
			verifrt.Assert("c03d.first-lower-is-min", lo == time.Duration(math.MinInt64))
		} else {
			verifrt.Assert("c03d.lower-equals-prev-upper", lo == h.buckets[i-1].durationUpperBound)
			verifrt.Assert("c03d.upper-nondecreasing", h.buckets[i-1].durationUpperBound <= hi)
		}
		if i == nb-1 {
			verifrt.Assert("c03d.last-upper-is-max", hi == time.Duration(math.MaxInt64))
		}
	}
	for i := 0; i < n; i++ {
		var inSpec, inUpper int64
		for j := 0; j < n; j++ {
			inSpec += b2i(orig[j] == h.buckets[i].durationUpperBound)
			inUpper += b2i(h.buckets[j].durationUpperBound == h.buckets[i].durationUpperBound)
		}
		verifrt.Assert("c03d.bounds-are-permutation-of-spec", inSpec == inUpper)
	}
	for i := range spec {
		verifrt.Assert("c03d.caller-slice-unchanged", spec[i] == orig[i])
	}
	d := time.Duration(verifrt.Int64("sample"))
	h.RecordValue(verifrt.Float64("ignored-value"))
	h.RecordDuration(d)
	var total int64
	for i := 0; i < nb; i++ {
		cnt := h.samples[i].counter.snapshot()
		total += cnt
		ge := h.buckets[i].durationUpperBound >= d
		first := ge
		if i > 0 {
			first = verifrt.And(ge, verifrt.Not(h.buckets[i-1].durationUpperBound >= d))
		}
		verifrt.Assert("c03d.sample-in-least-bucket-geq", cnt == b2i(first))
	}
	verifrt.Assert("c03d.exactly-one-bucket", total == 1)
	h.report("h", nil, rec)
	var delivered int64
	for _, c := range rec.calls {
		verifrt.Assert("c03d.delivery-kind", c.kind == "hd")
		delivered += c.i
		verifrt.Assert("c03d.delivered-bucket-holds-sample", verifrt.And(c.dhi >= d, c.i == 1))
	}
	verifrt.Assert("c03d.delivered-total", delivered == 1)
	verifrt.Reach("c03.duration.end")
}
