//go:build verif

package tally

import (
	"github.com/uber-go/tally/v4/internal/verifrt"
)

// This file holds the harnesses that look at the private representation of the metric
// (field names).  They are a separate job of the check: a change of representation makes
// this file fail to compile (reported as inconclusive for this job) without taking the
// behavioural harnesses down with it.

// VerifC01Step: one report step from an arbitrary counter state (inductive step).
func VerifC01Step() {
	rec := &vReporter{}
	crec := &vCachedReporter{}
	c := newCounter(crec.AllocateCounter("c", nil))
	c.prev, c.curr = verifrt.Int64("prev"), verifrt.Int64("curr")
	prev, curr := c.prev, c.curr
	if verifrt.Choose("cached", 2) == 1 {
		c.cachedReport()
		verifrt.Assert("c01.step.cached-delivery", (len(crec.calls) == 1) == (curr != prev))
		if len(crec.calls) == 1 {
			verifrt.Emit("delta", crec.calls[0].i)
			verifrt.Assert("c01.step.cached-delta", crec.calls[0].i == curr-prev)
		}
	} else {
		c.report("n", nil, rec)
		verifrt.Assert("c01.step.delivery", (len(rec.calls) == 1) == (curr != prev))
		if len(rec.calls) == 1 {
			verifrt.Emit("delta", rec.calls[0].i)
			verifrt.Assert("c01.step.delta", rec.calls[0].i == curr-prev && rec.calls[0].name == "n")
		}
	}
	verifrt.Assert("c01.step.prev-catches-up", c.prev == curr && c.curr == curr)
	verifrt.Reach("c01.step.end")
}
