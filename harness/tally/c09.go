//go:build verif

package tally

import (
	"io"
	"sync"
	"time"

	"github.com/uber-go/tally/v4/internal/verifrt"
)

// c09Metrics: two goroutines ask one live scope for the same metric at the same time while
// a third records on an already registered counter and (optionally) a report pass runs.
func c09Metrics(kind int, cached bool, withReport bool, preempt int) {
	crec := &vCachedReporter{}
	rec := &vReporter{}
	opts := ScopeOptions{OmitCardinalityMetrics: true, registryShardCount: 1}
	if cached {
		opts.CachedReporter = crec
	} else {
		opts.Reporter = rec
	}
	root := newRootScope(opts, 0)
	pre := root.Counter("pre")
	v0, v1, v2 := verifrt.Int64("inc"), verifrt.Int64("inc"), verifrt.Int64("inc")
	verifrt.Assume(verifrt.And(v0 != 0, verifrt.And(v1 != 0, verifrt.And(v2 != 0, v1+v2 != 0))))
	var got [2]interface{}
	var wg sync.WaitGroup
	verifrt.Explore(preempt)
	for i := 0; i < 2; i++ {
		wg.Add(1)
		go func(i int) {
			defer wg.Done()
			v := v1
			if i == 1 {
				v = v2
			}
			switch kind {
			case 0:
				c := root.Counter("x")
				c.Inc(v)
				got[i] = c
			case 1:
				g := root.Gauge("x")
				g.Update(1)
				got[i] = g
			case 2:
				t := root.Timer("x")
				t.Record(time.Duration(v))
				got[i] = t
			case 3:
				h := root.Histogram("x", ValueBuckets{1})
				h.RecordValue(0)
				got[i] = h
			}
		}(i)
	}
	wg.Add(1)
	go func() {
		defer wg.Done()
		pre.Inc(v0)
		if withReport {
			root.reportRegistry()
		}
	}()
	wg.Wait()
	verifrt.StopExplore()
	verifrt.Assert("c09.same-identity-same-object", got[0] == got[1])
	root.reportRegistry()
	if cached {
		allocs := 0
		for _, a := range crec.allocs {
			if a.name == "x" {
				allocs++
			}
		}
		verifrt.Assert("c09.at-most-one-allocate-per-identity", allocs == 1)
		var sumX, sumPre, samples int64
		for _, c := range crec.calls {
			switch crec.allocs[c.alloc].name {
			case "x":
				if c.kind == "samples" {
					samples += c.i
				} else if c.kind == "counter" {
					sumX += c.i
				}
			case "pre":
				sumPre += c.i
			}
		}
		verifrt.Assert("c09.pre-registered-counter-delivered", sumPre == v0)
		if kind == 0 {
			verifrt.Assert("c09.everything-recorded-through-any-handle-is-delivered", sumX == v1+v2)
		}
		if kind == 3 {
			verifrt.Assert("c09.histogram-samples-delivered", samples == 2)
		}
		if kind == 2 {
			var sumT int64
			nT := 0
			for _, c := range crec.calls {
				if c.kind == "timer" && crec.allocs[c.alloc].name == "x" {
					sumT += c.i
					nT++
				}
			}
			verifrt.Assert("c09.every-timer-value-reaches-the-cached-timer", verifrt.And(nT == 2, sumT == v1+v2))
		}
	} else {
		var sumX, sumPre, samples int64
		for _, c := range rec.calls {
			switch {
			case c.name == "x" && c.kind == "counter":
				sumX += c.i
			case c.name == "x" && c.kind == "hv":
				samples += c.i
			case c.name == "pre":
				sumPre += c.i
			}
		}
		verifrt.Assert("c09.pre-registered-counter-delivered", sumPre == v0)
		if kind == 0 {
			verifrt.Assert("c09.everything-recorded-through-any-handle-is-delivered", sumX == v1+v2)
		}
		if kind == 3 {
			verifrt.Assert("c09.histogram-samples-delivered", samples == 2)
		}
	}
	verifrt.Reach("c09.metrics.end")
}

func VerifC09Counter()         { c09Metrics(0, false, true, 2) }
func VerifC09CounterCached()   { c09Metrics(0, true, false, 2) }
func VerifC09Gauge()           { c09Metrics(1, true, false, 2) }
func VerifC09Timer()           { c09Metrics(2, true, false, 2) }
func VerifC09Histogram()       { c09Metrics(3, false, false, 2) }
func VerifC09HistogramCached() { c09Metrics(3, true, false, 2) }

// c09Scopes: two goroutines derive the same child scope (or two different ones) at once.
func c09Scopes(sameIdentity bool, tagged bool, shards uint, preempt int) {
	rec := &vReporter{}
	root := newRootScope(ScopeOptions{Reporter: rec, OmitCardinalityMetrics: true, registryShardCount: shards}, 0)
	v1, v2 := verifrt.Int64("inc"), verifrt.Int64("inc")
	verifrt.Assume(verifrt.And(v1 != 0, verifrt.And(v2 != 0, v1+v2 != 0)))
	var got [2]Scope
	var wg sync.WaitGroup
	verifrt.Explore(preempt)
	for i := 0; i < 2; i++ {
		wg.Add(1)
		go func(i int) {
			defer wg.Done()
			name := "a"
			if !sameIdentity && i == 1 {
				name = "b"
			}
			var s Scope
			if tagged {
				s = root.Tagged(map[string]string{"k": name})
			} else {
				s = root.SubScope(name)
			}
			v := v1
			if i == 1 {
				v = v2
			}
			s.Counter("c").Inc(v)
			got[i] = s
		}(i)
	}
	wg.Wait()
	verifrt.StopExplore()
	if sameIdentity {
		verifrt.Assert("c09.same-identity-same-scope", got[0].(*scope) == got[1].(*scope))
	} else {
		verifrt.Assert("c09.different-identities-different-scopes", got[0].(*scope) != got[1].(*scope))
	}
	root.reportRegistry()
	var sum int64
	for _, c := range rec.calls {
		sum += c.i
	}
	verifrt.Assert("c09.scope.everything-delivered", sum == v1+v2)
	verifrt.Reach("c09.scopes.end")
}

func VerifC09SubScopeSame()   { c09Scopes(true, false, 1, 2) }
func VerifC09TaggedSame()     { c09Scopes(true, true, 1, 2) }
func VerifC09SubScopeDiff()   { c09Scopes(false, false, 1, 2) }
func VerifC09SubScopeShard2() { c09Scopes(true, false, 2, 2) }

// VerifC09BucketCache: two goroutines create histograms whose bucket sets collide in the
// cache identity (a permutation of one set), under every 2-preemption schedule.
func VerifC09BucketCache() {
	rec := &vReporter{}
	root := newRootScope(ScopeOptions{Reporter: rec, OmitCardinalityMetrics: true, registryShardCount: 1}, 0)
	x := verifrt.Float64("bound")
	verifrt.Assume(verifrt.And(x > 1, x < 1000))
	var hs [2]Histogram
	var wg sync.WaitGroup
	verifrt.Explore(2)
	wg.Add(2)
	go func() { defer wg.Done(); hs[0] = root.Histogram("ha", ValueBuckets{1, x}) }()
	go func() { defer wg.Done(); hs[1] = root.Histogram("hb", ValueBuckets{x, 1, x}) }()
	wg.Wait()
	verifrt.StopExplore()
	ha, hb := hs[0].(*histogram), hs[1].(*histogram)
	verifrt.Assert("c09.cache.a-keeps-own-bounds", verifrt.And(len(ha.buckets) == 3, verifrt.And(ha.buckets[0].valueUpperBound == 1, ha.buckets[1].valueUpperBound == x)))
	verifrt.Assert("c09.cache.b-keeps-own-bounds", verifrt.And(len(hb.buckets) == 4, verifrt.And(hb.buckets[0].valueUpperBound == 1, verifrt.And(hb.buckets[1].valueUpperBound == x, hb.buckets[2].valueUpperBound == x))))
	verifrt.Reach("c09.cache.end")
}

// VerifC09BucketCacheCollide: two goroutines create, for the first time and concurrently,
// histograms with fully symbolic 2-element bound sets - the solver is free to pick two
// different sets with the same cache identity; each histogram must keep its own bounds.
var c09CollidePrefix = "c09.cache.collide"

func VerifC09BucketCacheCollide() {
	rec := &vReporter{}
	root := newRootScope(ScopeOptions{Reporter: rec, OmitCardinalityMetrics: true, registryShardCount: 1}, 0)
	a, b := time.Duration(verifrt.Int64("a")), time.Duration(verifrt.Int64("b"))
	c, d := time.Duration(verifrt.Int64("c")), time.Duration(verifrt.Int64("d"))
	verifrt.Assume(verifrt.And(a < b, c < d))
	var hs [2]Histogram
	var wg sync.WaitGroup
	verifrt.Explore(2)
	wg.Add(2)
	go func() { defer wg.Done(); hs[0] = root.Histogram("ha", DurationBuckets{a, b}) }()
	go func() { defer wg.Done(); hs[1] = root.SubScope("s").Histogram("hb", DurationBuckets{c, d}) }()
	wg.Wait()
	verifrt.StopExplore()
	ha, hb := hs[0].(*histogram), hs[1].(*histogram)
	verifrt.Assert(c09CollidePrefix+".a-keeps-own-bounds", verifrt.And(len(ha.buckets) == 3, verifrt.And(ha.buckets[0].durationUpperBound == a, ha.buckets[1].durationUpperBound == b)))
	verifrt.Assert(c09CollidePrefix+".b-keeps-own-bounds", verifrt.And(len(hb.buckets) == 3, verifrt.And(hb.buckets[0].durationUpperBound == c, hb.buckets[1].durationUpperBound == d)))
	verifrt.Reach("c09.cache.collide.end")
}

// VerifC09ReacquireClosed: a closed child scope that no pass has swept yet is requested again
// by two goroutines at once: both get the same live scope and nothing recorded is lost.
func VerifC09ReacquireClosed() {
	rec := &lockedReporter{}
	root := newRootScope(ScopeOptions{Reporter: rec, OmitCardinalityMetrics: true, registryShardCount: 1}, 0)
	v0, v1, v2 := verifrt.Int64("inc"), verifrt.Int64("inc"), verifrt.Int64("inc")
	verifrt.Assume(verifrt.And(v0 != 0, verifrt.And(v1 != 0, v2 != 0)))
	s := root.SubScope("a")
	s.Counter("x").Inc(v0)
	s.(io.Closer).Close()
	var got [2]Scope
	var wg sync.WaitGroup
	verifrt.Explore(2)
	wg.Add(2)
	go func() { defer wg.Done(); got[0] = root.SubScope("a"); got[0].Counter("x").Inc(v1) }()
	go func() { defer wg.Done(); got[1] = root.SubScope("a"); got[1].Counter("x").Inc(v2) }()
	wg.Wait()
	verifrt.StopExplore()
	verifrt.Assert("c09.reacquire.same-identity-same-scope", got[0].(*scope) == got[1].(*scope))
	verifrt.Assert("c09.reacquire.live", !got[0].(*scope).closed.Load())
	root.reportRegistry()
	root.reportRegistry()
	verifrt.Assert("c09.reacquire.everything-delivered-once", sumNamed(&rec.vReporter, "a.x") == v0+v1+v2)
	verifrt.Reach("c09.reacquire.end")
}

// VerifC09CounterSanitized: concurrent first use of a counter whose name the sanitizer rewrites.
func VerifC09CounterSanitized() {
	crec := &vCachedReporter{}
	root := newRootScope(ScopeOptions{CachedReporter: crec, OmitCardinalityMetrics: true, registryShardCount: 1,
		SanitizeOptions: &SanitizeOptions{
			NameCharacters:       ValidCharacters{Ranges: []SanitizeRange{{'a', 'z'}}},
			KeyCharacters:        ValidCharacters{Ranges: []SanitizeRange{{'a', 'z'}}},
			ValueCharacters:      ValidCharacters{Ranges: []SanitizeRange{{'a', 'z'}}},
			ReplacementCharacter: DefaultReplacementCharacter,
		}}, 0)
	v1, v2 := verifrt.Int64("inc"), verifrt.Int64("inc")
	verifrt.Assume(verifrt.And(v1 != 0, verifrt.And(v2 != 0, v1+v2 != 0)))
	kind := verifrt.Choose("kind", 3)
	var got [2]interface{}
	var wg sync.WaitGroup
	verifrt.Explore(2)
	for i := 0; i < 2; i++ {
		wg.Add(1)
		go func(i int) {
			defer wg.Done()
			v := v1
			if i == 1 {
				v = v2
			}
			switch kind {
			case 0:
				c := root.Counter("req-count")
				c.Inc(v)
				got[i] = c
			case 1:
				g := root.Gauge("req-count")
				g.Update(1)
				got[i] = g
			case 2:
				got[i] = root.Timer("req-count")
			}
		}(i)
	}
	wg.Wait()
	verifrt.StopExplore()
	verifrt.Assert("c09.sanitized.same-identity-same-object", got[0] == got[1])
	allocs := 0
	for _, a := range crec.allocs {
		if a.name == "req_count" {
			allocs++
		}
	}
	verifrt.Assert("c09.sanitized.at-most-one-allocate-per-identity", allocs == 1)
	root.reportRegistry()
	if kind == 0 {
		verifrt.Assert("c09.sanitized.everything-delivered", sumNamedCached(crec, "req_count") == v1+v2)
	}
	verifrt.Reach("c09.sanitized.end")
}
