//go:build verif

package tally

import (
	"math"
	"time"

	"github.com/uber-go/tally/v4/internal/verifrt"
)

// VerifC11Snapshot: histories over all metric kinds on a test scope and a derived
// scope; a snapshot taken mid-way and one at the end are compared with a reference tally.
func VerifC11Snapshot()  { c11Snapshot(2, false) }
func VerifC11Snapshot3() { c11Snapshot(3, false) }
func VerifC11DupBounds() { c11Snapshot(2, true) }

// VerifC11Override: the derived scope overrides the root's tag value (same prefix, same
// number of tags) - its entries must carry its own tags.
func VerifC11Override() { c11Override = 1; c11Snapshot(2, false) }

// VerifC11OverrideWider: the derived scope re-defines the root's tag and adds another one (its
// call-site tag set is larger than the parent's): rightmost still wins.
func VerifC11OverrideWider() { c11Override = 2; c11Snapshot(2, false) }

var c11Override int

func c11Snapshot(steps int, dup bool) {
	prefix := verifrt.String("prefix", verifrt.Choose("plen", 2))
	verifrt.Class("a-string-contains-a-key-delimiter(,=+)", hasDelim(prefix))
	ts := NewTestScope(prefix, map[string]string{"r": "1"})
	sub := ts.SubScope("s").Tagged(map[string]string{"t": "2"})
	if c11Override == 1 {
		sub = ts.Tagged(map[string]string{"r": "2"})
	} else if c11Override == 2 {
		sub = ts.Tagged(map[string]string{"r": "2", "w": "3"})
	}
	scopes := []Scope{ts, sub}
	fq := func(k int, name string) string {
		p := prefix
		if k == 1 && c11Override == 0 {
			if p == "" {
				p = "s"
			} else {
				p = p + ".s"
			}
		}
		if p == "" {
			return name
		}
		return p + "." + name
	}
	tagsOf := func(k int) map[string]string {
		if k == 1 && c11Override == 1 {
			return map[string]string{"r": "2"}
		}
		if k == 1 && c11Override == 2 {
			return map[string]string{"r": "2", "w": "3"}
		}
		if k == 1 {
			return map[string]string{"r": "1", "t": "2"}
		}
		return map[string]string{"r": "1"}
	}
	b1, b2 := verifrt.Float64("bound"), verifrt.Float64("bound")
	verifrt.Assume(verifrt.And(finite(b1), finite(b2)))
	if dup {
		verifrt.Assume(b1 == b2)
	} else {
		verifrt.Assume(b1 < b2)
	}
	spec := ValueBuckets{b1, b2}

	// reference tally
	var cSum [2]int64
	var cSeen, gSeen, tSeen, hSeen [2]bool
	var gLast [2]uint64
	var tVals [2][]time.Duration
	var hCnt [2][3]int64 // (-inf,b1], (b1,b2], (b2,max]
	snapAt := verifrt.Choose("snapshot-at", steps+1)
	var mid Snapshot
	var midC [2]int64
	var midSeen [2]bool
	for s := 0; s < steps; s++ {
		if s == snapAt {
			mid = ts.Snapshot()
			midC, midSeen = cSum, cSeen
		}
		k := verifrt.Choose("scope", 2)
		switch verifrt.Choose("op", 4) {
		case 0:
			v := verifrt.Int64("inc")
			scopes[k].Counter("c").Inc(v)
			cSum[k] += v
			cSeen[k] = true
		case 1:
			v := verifrt.Float64("gauge")
			scopes[k].Gauge("g").Update(v)
			gLast[k] = fbits(v)
			gSeen[k] = true
		case 2:
			d := time.Duration(verifrt.Int64("dur"))
			scopes[k].Timer("t").Record(d)
			tVals[k] = append(tVals[k], d)
			tSeen[k] = true
		case 3:
			v := verifrt.Float64("sample")
			verifrt.Assume(finite(v))
			scopes[k].Histogram("h", spec).RecordValue(v)
			hSeen[k] = true
			hCnt[k][0] += b2i(v <= b1)
			hCnt[k][1] += b2i(verifrt.And(verifrt.Not(v <= b1), v <= b2))
			hCnt[k][2] += b2i(verifrt.Not(v <= b2))
		}
	}
	if snapAt == steps {
		mid = ts.Snapshot()
		midC, midSeen = cSum, cSeen
	}
	// closing the derived scope does not hide it from a test scope's snapshot
	if c, ok := sub.(*scope); ok {
		c.Close()
	}
	final := sub.(TestScope).Snapshot()

	nC, nG, nT, nH := 0, 0, 0, 0
	var mutate []func()
	for k := 0; k < 2; k++ {
		tags := tagsOf(k)
		if cSeen[k] {
			nC++
			e, ok := final.Counters()[KeyForPrefixedStringMap(fq(k, "c"), tags)]
			verifrt.Assert("c11.counter-entry", ok)
			if ok {
				verifrt.Emit("c", e.Value())
				verifrt.Assert("c11.counter-is-sum", e.Value() == cSum[k])
				verifrt.Assert("c11.counter-name", e.Name() == fq(k, "c"))
				verifrt.Assert("c11.counter-tags", len(e.Tags()) == len(tags) && e.Tags()["r"] == tags["r"] && e.Tags()["t"] == tags["t"] && e.Tags()["w"] == tags["w"])
				// modifying the snapshot does not affect the scope (done after all entries were
				// checked: the entries of one scope in one snapshot may share their tag map)
				mutate = append(mutate, func() { e.Tags()["r"] = "changed" })
			}
		}
		if gSeen[k] {
			nG++
			e, ok := final.Gauges()[KeyForPrefixedStringMap(fq(k, "g"), tags)]
			verifrt.Assert("c11.gauge-entry", ok)
			if ok {
				verifrt.Assert("c11.gauge-is-last-update", fbits(e.Value()) == gLast[k])
				verifrt.Assert("c11.gauge-tags", len(e.Tags()) == len(tags) && e.Tags()["r"] == tags["r"])
				mutate = append(mutate, func() { e.Tags()["r"] = "changed-g"; delete(e.Tags(), "t") })
			}
		}
		if tSeen[k] {
			nT++
			e, ok := final.Timers()[KeyForPrefixedStringMap(fq(k, "t"), tags)]
			verifrt.Assert("c11.timer-entry", ok)
			if ok {
				verifrt.Assert("c11.timer-count", len(e.Values()) == len(tVals[k]))
				for i, d := range e.Values() {
					if i < len(tVals[k]) {
						verifrt.Assert("c11.timer-values-in-order", d == tVals[k][i])
					}
				}
				if len(e.Values()) > 0 {
					e.Values()[0] = -1
				}
				verifrt.Assert("c11.timer-tags", len(e.Tags()) == len(tags) && e.Tags()["r"] == tags["r"])
				mutate = append(mutate, func() { e.Tags()["r"] = "changed-t"; delete(e.Tags(), "t") })
			}
		}
		if hSeen[k] {
			nH++
			e, ok := final.Histograms()[KeyForPrefixedStringMap(fq(k, "h"), tags)]
			verifrt.Assert("c11.histogram-entry", ok)
			if ok {
				vals := e.Values()
				verifrt.Assert("c11.histogram-durations-nil", e.Durations() == nil)
				verifrt.Assert("c11.histogram-tags", len(e.Tags()) == len(tags) && e.Tags()["r"] == tags["r"])
				mutate = append(mutate, func() { e.Tags()["r"] = "changed-h"; delete(e.Tags(), "t") })
				if dup {
					// bounds b1 == b2: the map has one entry for that bound holding all samples <= b1
					verifrt.Assert("c11.histogram-dup-bound-count", vals[b1] == hCnt[k][0]+hCnt[k][1])
				} else {
					verifrt.Assert("c11.histogram-bucket-counts", verifrt.And(vals[b1] == hCnt[k][0], vals[b2] == hCnt[k][1]))
				}
				var total int64
				for _, n := range vals {
					total += n
				}
				verifrt.Assert("c11.histogram-total", total == hCnt[k][0]+hCnt[k][1]+hCnt[k][2])
			}
		}
	}
	for _, f := range mutate {
		f()
	}
	verifrt.Assert("c11.one-entry-per-metric", len(final.Counters()) == nC && len(final.Gauges()) == nG && len(final.Timers()) == nT && len(final.Histograms()) == nH)
	// the earlier snapshot is an independent copy
	for k := 0; k < 2; k++ {
		e, ok := mid.Counters()[KeyForPrefixedStringMap(fq(k, "c"), tagsOf(k))]
		verifrt.Assert("c11.mid-snapshot-entry", ok == midSeen[k])
		if ok {
			verifrt.Assert("c11.mid-snapshot-unchanged-by-later-recording", e.Value() == midC[k])
		}
	}
	// a later snapshot is unaffected by the modifications made to the previous one
	again := ts.Snapshot()
	for k := 0; k < 2; k++ {
		if cSeen[k] {
			e, ok := again.Counters()[KeyForPrefixedStringMap(fq(k, "c"), tagsOf(k))]
			verifrt.Assert("c11.later-snapshot-entry", ok)
			if ok {
				verifrt.Assert("c11.snapshot-modification-does-not-leak", e.Tags()["r"] == tagsOf(k)["r"])
			}
		}
		if gSeen[k] {
			_, ok := again.Gauges()[KeyForPrefixedStringMap(fq(k, "g"), tagsOf(k))]
			verifrt.Assert("c11.later-snapshot-gauge-entry-under-its-own-tags", ok)
		}
		if hSeen[k] {
			_, ok := again.Histograms()[KeyForPrefixedStringMap(fq(k, "h"), tagsOf(k))]
			verifrt.Assert("c11.later-snapshot-histogram-entry-under-its-own-tags", ok)
		}
		if tSeen[k] {
			e, ok := again.Timers()[KeyForPrefixedStringMap(fq(k, "t"), tagsOf(k))]
			verifrt.Assert("c11.later-snapshot-timer-entry-under-its-own-tags", ok)
			if ok && len(e.Values()) > 0 {
				verifrt.Assert("c11.snapshot-values-modification-does-not-leak", e.Values()[0] == tVals[k][0])
			}
		}
	}
	verifrt.Reach("c11.end")
}

// VerifC11TwoSpecs: two histograms of one test-scope tree with different symbolic bucket sets
// (which the solver may choose to collide in the bucket cache): each snapshot entry maps its
// own bounds to its own counts.  Duration buckets: the cache identity is plain integer
// arithmetic.
func VerifC11TwoSpecs() {
	ts := NewTestScope("", nil)
	max := time.Duration(math.MaxInt64)
	a, b := time.Duration(verifrt.Int64("bound")), time.Duration(verifrt.Int64("bound"))
	c, d := time.Duration(verifrt.Int64("bound")), time.Duration(verifrt.Int64("bound"))
	verifrt.Assume(verifrt.And(verifrt.And(a < b, b < max), verifrt.And(c < d, d < max)))
	x, y := time.Duration(verifrt.Int64("sample")), time.Duration(verifrt.Int64("sample"))
	ts.Histogram("h1", DurationBuckets{a, b}).RecordDuration(x)
	ts.SubScope("s").Histogram("h2", DurationBuckets{c, d}).RecordDuration(y)
	snap := ts.Snapshot().Histograms()
	e1, ok1 := snap[KeyForPrefixedStringMap("h1", nil)]
	e2, ok2 := snap[KeyForPrefixedStringMap("s.h2", nil)]
	verifrt.Assert("c11.two-specs.entries", ok1 && ok2)
	if ok1 && ok2 {
		v1, v2 := e1.Durations(), e2.Durations()
		verifrt.Assert("c11.two-specs.first-own-bounds-and-counts", verifrt.And(
			verifrt.And(v1[a] == b2i(x <= a), v1[b] == b2i(verifrt.And(verifrt.Not(x <= a), x <= b))),
			v1[max] == b2i(verifrt.Not(x <= b))))
		verifrt.Assert("c11.two-specs.second-own-bounds-and-counts", verifrt.And(
			verifrt.And(v2[c] == b2i(y <= c), v2[d] == b2i(verifrt.And(verifrt.Not(y <= c), y <= d))),
			v2[max] == b2i(verifrt.Not(y <= d))))
	}
	verifrt.Reach("c11.two-specs.end")
}

// c11Alias: a derivation on the root that adds nothing (nil / empty / already-carried tags, an
// empty subscope name on an unprefixed root) names the root itself: metrics recorded through
// both handles under one name are one metric in the snapshot - the counter is the sum, the
// gauge the last update, timers and histograms hold every value.  Run with one and with two
// registry shards (the shard hash is an uninterpreted function: the solver picks the shard).
func c11Alias() {
	prefixed := verifrt.Choose("prefixed", 2) == 1
	prefix := ""
	if prefixed {
		prefix = "svc"
	}
	ts := NewTestScope(prefix, map[string]string{"r": "1"})
	var alias Scope
	switch verifrt.Choose("derivation", 4) {
	case 0:
		alias = ts.Tagged(nil)
	case 1:
		alias = ts.Tagged(map[string]string{})
	case 2:
		alias = ts.Tagged(map[string]string{"r": "1"})
	case 3:
		if prefixed {
			alias = ts.Tagged(nil).Tagged(map[string]string{})
		} else {
			alias = ts.SubScope("")
		}
	}
	fq := func(name string) string {
		if prefix == "" {
			return name
		}
		return prefix + "." + name
	}
	tags := map[string]string{"r": "1"}
	a, b := verifrt.Int64("inc"), verifrt.Int64("inc")
	ts.Counter("c").Inc(a)
	alias.Counter("c").Inc(b)
	g1, g2 := verifrt.Float64("gauge"), verifrt.Float64("gauge")
	ts.Gauge("g").Update(g1)
	alias.Gauge("g").Update(g2)
	ts.Timer("t").Record(time.Second)
	alias.Timer("t").Record(2 * time.Second)
	ts.Histogram("h", ValueBuckets{1}).RecordValue(0)
	alias.Histogram("h", ValueBuckets{1}).RecordValue(0)
	snap := ts.Snapshot()
	c, ok := snap.Counters()[KeyForPrefixedStringMap(fq("c"), tags)]
	verifrt.Assert("c11.alias.counter-entry", ok)
	if ok {
		verifrt.Assert("c11.alias.counter-is-the-sum-over-both-handles", c.Value() == a+b)
	}
	g, ok := snap.Gauges()[KeyForPrefixedStringMap(fq("g"), tags)]
	verifrt.Assert("c11.alias.gauge-entry", ok)
	if ok {
		verifrt.Assert("c11.alias.gauge-is-the-last-update", fbits(g.Value()) == fbits(g2))
	}
	t, ok := snap.Timers()[KeyForPrefixedStringMap(fq("t"), tags)]
	verifrt.Assert("c11.alias.timer-entry", ok)
	if ok {
		verifrt.Assert("c11.alias.timer-holds-both-values", len(t.Values()) == 2)
	}
	h, ok := snap.Histograms()[KeyForPrefixedStringMap(fq("h"), tags)]
	verifrt.Assert("c11.alias.histogram-entry", ok)
	if ok {
		verifrt.Assert("c11.alias.histogram-holds-both-samples", h.Values()[1] == 2)
	}
	verifrt.Assert("c11.alias.one-entry-per-metric", len(snap.Counters()) == 1 && len(snap.Gauges()) == 1 && len(snap.Timers()) == 1 && len(snap.Histograms()) == 1)
	verifrt.Reach("c11.alias.end")
}

func VerifC11RootAlias()        { c11Alias() }
func VerifC11RootAliasShards2() { c11Alias() } // registered with -gomaxprocs 2: two registry shards

// VerifC11EmptyName: the empty string is a legal metric name; on a scope without a prefix the
// full name is then empty too.  Every kind is found under the public key of (full name, tags).
func VerifC11EmptyName() {
	prefix := []string{"", "p"}[verifrt.Choose("prefix", 2)]
	ts := NewTestScope(prefix, map[string]string{"r": "1"})
	tags := map[string]string{"r": "1"}
	v := verifrt.Int64("inc")
	ts.Counter("").Inc(v)
	ts.Gauge("").Update(1)
	ts.Timer("").Record(time.Second)
	ts.Histogram("", ValueBuckets{1}).RecordValue(0)
	ts.Counter("named").Inc(1)
	full := ""
	if prefix != "" {
		full = prefix + "."
	}
	snap := ts.Snapshot()
	c, ok := snap.Counters()[KeyForPrefixedStringMap(full, tags)]
	verifrt.Assert("c11.empty-name.counter-entry", ok)
	if ok {
		verifrt.Assert("c11.empty-name.counter-value-and-name", c.Value() == v && c.Name() == full)
	}
	_, ok = snap.Gauges()[KeyForPrefixedStringMap(full, tags)]
	verifrt.Assert("c11.empty-name.gauge-entry", ok)
	_, ok = snap.Timers()[KeyForPrefixedStringMap(full, tags)]
	verifrt.Assert("c11.empty-name.timer-entry", ok)
	_, ok = snap.Histograms()[KeyForPrefixedStringMap(full, tags)]
	verifrt.Assert("c11.empty-name.histogram-entry", ok)
	_, ok = snap.Counters()[KeyForPrefixedStringMap(full+"named", tags)]
	verifrt.Assert("c11.empty-name.named-counter-entry", ok)
	verifrt.Assert("c11.empty-name.two-counters", len(snap.Counters()) == 2)
	verifrt.Reach("c11.emptyname.end")
}
