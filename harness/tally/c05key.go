//go:build verif

package tally

import (
	"github.com/uber-go/tally/v4/internal/verifrt"
)

type kv struct{ k, v string }

func hasDelim(s string) bool {
	r := false
	for i := 0; i < len(s); i++ {
		r = verifrt.Or(r, verifrt.Or(s[i] == ',', verifrt.Or(s[i] == '=', s[i] == '+')))
	}
	return r
}

// sortKVs orders entries by key without forking (selection network for <= 2..3 entries
// is not needed: the reference only needs *a* canonical order, computed with forks allowed).
func refKey(prefix string, es []kv) string {
	// es has pairwise distinct keys; insertion sort by key (forks on comparisons)
	s := append([]kv{}, es...)
	for i := 1; i < len(s); i++ {
		for j := i; j > 0 && s[j].k < s[j-1].k; j-- {
			s[j], s[j-1] = s[j-1], s[j]
		}
	}
	out := ""
	if prefix != "" {
		out = prefix + "+"
	}
	for i, e := range s {
		if i > 0 {
			out += ","
		}
		out += e.k + "=" + e.v
	}
	return out
}

func symEntries(tag string, n, klen, vlen int) []kv {
	es := make([]kv, n)
	for i := range es {
		es[i] = kv{verifrt.String(tag+".key", klen), verifrt.String(tag+".val", vlen)}
	}
	return es
}

func toMap(es []kv) map[string]string {
	m := make(map[string]string, len(es))
	for _, e := range es {
		m[e.k] = e.v
	}
	return m
}

// VerifC05KeyRef: the key of (prefix, maps...) equals the reference rendering of the
// merged map, for every map iteration order; rightmost map wins.
func VerifC05KeyRef() {
	verifrt.PermuteMaps(3)
	plen := verifrt.Choose("plen", 3)
	prefix := verifrt.String("prefix", plen)
	klen := 1 + verifrt.Choose("klen", 2) // 1..2
	vlen := verifrt.Choose("vlen", 3)     // 0..2
	// left map: 2 entries, right map: 1 entry that may override a left key
	l := symEntries("l", 2, klen, vlen)
	verifrt.Assume(l[0].k != l[1].k)
	r := symEntries("r", 1, klen, vlen)
	lm, rm := toMap(l), toMap(r)

	// merged reference (right wins)
	var merged []kv
	for _, e := range l {
		if e.k == r[0].k { // forks: override or not
			continue
		}
		merged = append(merged, e)
	}
	merged = append(merged, r[0])

	got := keyForPrefixedStringMaps(prefix, lm, rm)
	verifrt.PermuteMaps(0)
	want := refKey(prefix, merged)
	verifrt.EmitS("key", got)
	verifrt.Assert("c05.key-len", len(got) == len(want))
	if len(got) == len(want) {
		verifrt.Assert("c05.key-equals-reference(order-independent,rightmost-wins)", got == want)
	}
	// agreement with the key of the merged map through the public function
	pub := KeyForPrefixedStringMap(prefix, toMap(merged))
	verifrt.Assert("c05.key-agrees-with-merged-map", len(pub) == len(got) && pub == got)
	// KeyForStringMap is the empty-prefix case
	verifrt.Assert("c05.keyforstringmap", KeyForStringMap(toMap(merged)) == KeyForPrefixedStringMap("", toMap(merged)))
	verifrt.Reach("c05.keyref.end")
}

// VerifC05KeyEmptyKey: same as above but tag keys may be empty (the de-duplication
// and separator logic must not use the empty string as a sentinel).
func VerifC05KeyEmptyKey() {
	verifrt.PermuteMaps(3)
	prefix := verifrt.String("prefix", verifrt.Choose("plen", 2))
	klen := verifrt.Choose("klen", 2) // 0..1
	l := symEntries("l", 1, klen, 1)
	r := symEntries("r", 1, klen, 1)
	extra := symEntries("x", 1, 1, 1)
	verifrt.Assume(verifrt.Not(verifrt.EqStr(extra[0].k, l[0].k)))
	verifrt.Assume(verifrt.Not(verifrt.EqStr(extra[0].k, r[0].k)))
	lm := toMap(append(append([]kv{}, l...), extra...))
	rm := toMap(r)
	var merged []kv
	if l[0].k != r[0].k {
		merged = append(merged, l[0])
	}
	merged = append(merged, extra[0], r[0])
	got := keyForPrefixedStringMaps(prefix, lm, rm)
	verifrt.PermuteMaps(0)
	want := refKey(prefix, merged)
	verifrt.EmitS("key", got)
	verifrt.Assert("c05.key-equals-reference/empty-keys", len(got) == len(want) && got == want)
	pub := KeyForPrefixedStringMap(prefix, toMap(merged))
	verifrt.Assert("c05.key-agrees-with-merged-map/empty-keys", len(pub) == len(got) && pub == got)
	verifrt.Reach("c05.keyempty.end")
}

type keyShape struct {
	plen int
	n    int
	klen [2]int
	vlen [2]int
}

func (s keyShape) total() int {
	t := 0
	if s.plen > 0 {
		t += s.plen + 1
	}
	for i := 0; i < s.n; i++ {
		if i > 0 {
			t++
		}
		t += s.klen[i] + 1 + s.vlen[i]
	}
	return t
}

func chooseShape(tag string) keyShape {
	var s keyShape
	s.plen = verifrt.Choose(tag+".plen", 3)
	s.n = verifrt.Choose(tag+".n", 3)
	for i := 0; i < s.n; i++ {
		s.klen[i] = verifrt.Choose(tag+".klen", 2)
		if s.n == 1 {
			s.vlen[i] = verifrt.Choose(tag+".vlen", 5)
		} else {
			s.vlen[i] = verifrt.Choose(tag+".vlen", 2)
		}
	}
	return s
}

// VerifC05KeyInjective: two (prefix, tags) inputs with equal key are equal.
func VerifC05KeyInjective() {
	a, b := chooseShape("a"), chooseShape("b")
	if a.total() != b.total() {
		verifrt.Reach("c05.inj.lengths-differ")
		return // keys of different length are different
	}
	mk := func(tag string, s keyShape) (string, []kv) {
		p := verifrt.String(tag+".prefix", s.plen)
		es := make([]kv, s.n)
		for i := range es {
			es[i] = kv{verifrt.String(tag+".key", s.klen[i]), verifrt.String(tag+".val", s.vlen[i])}
		}
		if s.n == 2 {
			verifrt.Assume(verifrt.Not(verifrt.EqStr(es[0].k, es[1].k)))
		}
		return p, es
	}
	pa, ea := mk("a", a)
	pb, eb := mk("b", b)
	delim := verifrt.Or(hasDelim(pa), hasDelim(pb))
	for _, e := range ea {
		delim = verifrt.Or(delim, verifrt.Or(hasDelim(e.k), hasDelim(e.v)))
	}
	for _, e := range eb {
		delim = verifrt.Or(delim, verifrt.Or(hasDelim(e.k), hasDelim(e.v)))
	}
	verifrt.Class("a-string-contains-a-key-delimiter(,=+)", delim)
	ka := KeyForPrefixedStringMap(pa, toMap(ea))
	kb := KeyForPrefixedStringMap(pb, toMap(eb))
	same := verifrt.EqStr(pa, pb)
	if len(ea) != len(eb) {
		same = false
	} else {
		for _, x := range ea {
			found := false
			for _, y := range eb {
				found = verifrt.Or(found, verifrt.And(verifrt.EqStr(x.k, y.k), verifrt.EqStr(x.v, y.v)))
			}
			same = verifrt.And(same, found)
		}
	}
	verifrt.Assert("c05.key-injective", verifrt.Implies(verifrt.EqStr(ka, kb), same))
	verifrt.Assert("c05.key-functional", verifrt.Implies(same, verifrt.EqStr(ka, kb)))
	verifrt.Reach("c05.inj.end")
}

// VerifC05ManyKeys: tag sets larger than any small-size fast path of the key writer: 16 keys on
// the left, 2 on the right, one of which re-defines a left key, values symbolic (one byte);
// every rotation of the iteration order of both maps.  Rightmost wins, the key is the
// reference rendering of the merged map and agrees with the public function on the merged map.
func VerifC05ManyKeys() {
	verifrt.RotateMaps(1)
	const n = 16
	var l []kv
	for i := 0; i < n; i++ {
		l = append(l, kv{"k" + string(rune('a'+i)), verifrt.String("l.val", 1)})
	}
	over := verifrt.Choose("overridden", n)
	r := []kv{{l[over].k, verifrt.String("r.val", 1)}, {"kz", verifrt.String("r.val", 1)}}
	lm, rm := toMap(l), toMap(r)
	var merged []kv
	for i, e := range l {
		if i != over {
			merged = append(merged, e)
		}
	}
	merged = append(merged, r...)
	got := keyForPrefixedStringMaps("p", lm, rm)
	verifrt.RotateMaps(0)
	want := refKey("p", merged)
	verifrt.Assert("c05.many-keys.key-len", len(got) == len(want))
	if len(got) == len(want) {
		verifrt.Assert("c05.many-keys.key-equals-reference(rightmost-wins)", got == want)
	}
	pub := KeyForPrefixedStringMap("p", toMap(merged))
	verifrt.Assert("c05.many-keys.key-agrees-with-merged-map", len(pub) == len(got) && pub == got)
	verifrt.Reach("c05.manykeys.end")
}
