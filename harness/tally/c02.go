//go:build verif

package tally

import (
	"sync"
	"time"

	"github.com/uber-go/tally/v4/internal/verifrt"
)

// logReporter appends every gauge delivery to the globally ordered log.
type logReporter struct{}

func (logReporter) ReportCounter(name string, tags map[string]string, value int64) {}
func (logReporter) ReportGauge(name string, tags map[string]string, value float64) {
	verifrt.LogAppend(fbits(value))
}
func (logReporter) ReportTimer(name string, tags map[string]string, interval time.Duration) {}
func (logReporter) ReportHistogramValueSamples(name string, tags map[string]string, buckets Buckets, lo, hi float64, samples int64) {
}
func (logReporter) ReportHistogramDurationSamples(name string, tags map[string]string, buckets Buckets, lo, hi time.Duration, samples int64) {
}
func (logReporter) Capabilities() Capabilities { return capabilitiesReportingTagging }
func (logReporter) Flush()                     {}

type logCachedGauge struct{}

func (logCachedGauge) ReportGauge(value float64) { verifrt.LogAppend(fbits(value)) }

// c02Kernel: one updater with u updates, r concurrent passes x q reports, join, then a
// pass that starts after everything has stopped, then one more.
func c02Kernel(u, r, q, preempt int, cached bool) {
	g := newGauge(logCachedGauge{})
	vals := make([]float64, u)
	for i := range vals {
		vals[i] = verifrt.Float64("update")
	}
	rep := logReporter{}
	pass := func() {
		if cached {
			g.cachedReport()
		} else {
			g.report("g", nil, rep)
		}
	}
	var wg sync.WaitGroup
	verifrt.Explore(preempt)
	wg.Add(1)
	go func() {
		defer wg.Done()
		for _, v := range vals {
			g.Update(v)
		}
	}()
	for i := 0; i < r; i++ {
		wg.Add(1)
		go func() {
			defer wg.Done()
			for k := 0; k < q; k++ {
				pass()
			}
		}()
	}
	wg.Wait()
	verifrt.StopExplore()
	pass() // the first pass that starts after the updates have stopped
	n := verifrt.LogLen()
	pass() // nothing new: not delivered again
	verifrt.Assert("c02.not-delivered-again-without-update", verifrt.LogLen() == n)
	verifrt.Assert("c02.deliveries-never-exceed-updates", n <= u)
	for i := 0; i < n; i++ {
		d := verifrt.LogAt(i)
		isOne := false
		for _, v := range vals {
			isOne = verifrt.Or(isOne, d == fbits(v))
		}
		verifrt.Assert("c02.every-delivery-is-an-updated-value(bit-for-bit)", isOne)
	}
	if u > 0 {
		verifrt.Assert("c02.some-delivery-after-updates", n >= 1)
		if n >= 1 {
			verifrt.Assert("c02.most-recent-delivery-is-the-last-update", verifrt.LogAt(n-1) == fbits(vals[u-1]))
		}
	}
	verifrt.Reach("c02.kernel.end")
}

// c02Late: a pass that starts after the updates have stopped overlaps a straggling pass;
// when both are done the reporter's most recent value is the last update.
func c02Late(u, preempt int, cached bool) {
	g := newGauge(logCachedGauge{})
	vals := make([]float64, u)
	for i := range vals {
		vals[i] = verifrt.Float64("update")
	}
	rep := logReporter{}
	pass := func() {
		if cached {
			g.cachedReport()
		} else {
			g.report("g", nil, rep)
		}
	}
	var wgUpd, wg sync.WaitGroup
	verifrt.Explore(preempt)
	wgUpd.Add(1)
	wg.Add(3)
	go func() {
		defer wg.Done()
		defer wgUpd.Done()
		for _, v := range vals {
			g.Update(v)
		}
	}()
	go func() { defer wg.Done(); pass() }()
	go func() { defer wg.Done(); wgUpd.Wait(); pass() }()
	wg.Wait()
	verifrt.StopExplore()
	n := verifrt.LogLen()
	verifrt.Assert("c02.late.some-delivery", n >= 1)
	if n >= 1 {
		verifrt.Assert("c02.late.most-recent-delivery-is-the-last-update", verifrt.LogAt(n-1) == fbits(vals[u-1]))
	}
	verifrt.Reach("c02.late.end")
}

func VerifC02LatePass()       { c02Late(2, 2, false) }
func VerifC02LatePassCached() { c02Late(2, 2, true) }

func VerifC02Kernel()       { c02Kernel(2, 2, 1, 2, false) }
func VerifC02KernelCached() { c02Kernel(2, 2, 1, 2, true) }
func VerifC02OnePass()      { c02Kernel(2, 1, 2, 3, false) }
func VerifC02Wide()         { c02Kernel(3, 2, 1, 3, false) }
func VerifC02ThreePass()    { c02Kernel(2, 3, 1, 2, false) }

// VerifC02ScopeLevel: the same guarantee observed through the scope/registry report pass: an
// updater and a report pass run concurrently; once both are done, the next pass leaves the
// reporter holding the last update (and a further pass delivers nothing).
func VerifC02ScopeLevel() {
	rec := &lockedReporter{}
	root := newRootScope(ScopeOptions{Reporter: rec, OmitCardinalityMetrics: true, registryShardCount: 1}, 0)
	g := root.Gauge("g")
	other := root.Gauge("other")
	v1, v2 := verifrt.Float64("v"), verifrt.Float64("v")
	g.Update(v1)
	var wg sync.WaitGroup
	verifrt.Explore(2)
	wg.Add(2)
	go func() { defer wg.Done(); other.Update(1); g.Update(v2) }()
	go func() { defer wg.Done(); root.reportRegistry() }()
	wg.Wait()
	verifrt.StopExplore()
	root.reportRegistry()
	last := func() (uint64, int) {
		var bits uint64
		n := 0
		for _, c := range rec.calls {
			if c.kind == "gauge" && c.name == "g" {
				bits = fbits(c.f)
				n++
			}
		}
		return bits, n
	}
	bits, n := last()
	verifrt.Assert("c02.scope.reporter-holds-the-latest-update", verifrt.And(n >= 1, bits == fbits(v2)))
	root.reportRegistry()
	_, n2 := last()
	verifrt.Assert("c02.scope.nothing-delivered-again", n2 == n)
	verifrt.Reach("c02.scope.end")
}

// VerifC02FirstUse: two goroutines make the first use of one gauge name on one scope at the
// same time (both may miss the read-locked lookup); the second one updates after the first one
// has finished, so its value is the last update.  After both are done the next pass must
// deliver that value: a caller that lost the creation race still holds the registered gauge.
// Plain and cached reporter, every schedule with at most 2 preemptions.
func VerifC02FirstUse() {
	rec := &lockedReporter{}
	crec := &vCachedReporter{}
	cached := verifrt.Choose("cached", 2) == 1
	opts := ScopeOptions{OmitCardinalityMetrics: true, registryShardCount: 1}
	if cached {
		opts.CachedReporter = crec
	} else {
		opts.Reporter = rec
	}
	root := newRootScope(opts, 0)
	v1, v2 := verifrt.Float64("v"), verifrt.Float64("v")
	var firstDone, wg sync.WaitGroup
	firstDone.Add(1)
	verifrt.Explore(2)
	wg.Add(2)
	go func() {
		defer wg.Done()
		g := root.Gauge("g")
		g.Update(v1)
		firstDone.Done()
	}()
	go func() {
		defer wg.Done()
		g := root.Gauge("g")
		firstDone.Wait()
		g.Update(v2)
	}()
	wg.Wait()
	verifrt.StopExplore()
	root.reportRegistry()
	var bits uint64
	n := 0
	if cached {
		for _, c := range crec.calls {
			if c.kind == "gauge" {
				bits = fbits(c.f)
				n++
			}
		}
		verifrt.Assert("c02.first-use.one-allocation-per-name", len(crec.allocs) == 1)
	} else {
		for _, c := range rec.calls {
			if c.kind == "gauge" && c.name == "g" {
				bits = fbits(c.f)
				n++
			}
		}
	}
	verifrt.Assert("c02.first-use.reporter-holds-the-latest-update", verifrt.And(n >= 1, bits == fbits(v2)))
	verifrt.Reach("c02.first-use.end")
}

// VerifC02RetiredHandle: a caller may keep a Gauge of a subscope that was closed, reported for
// the last time and dropped.  Whatever it does with that handle afterwards, a live gauge is
// only ever delivered values that were passed to Update on that gauge, and its most recent
// delivery is its own last update (sequential; plain and cached reporter).
func VerifC02RetiredHandle() {
	rec := &vReporter{}
	crec := &vCachedReporter{}
	cached := verifrt.Choose("cached", 2) == 1
	opts := ScopeOptions{OmitCardinalityMetrics: true, registryShardCount: 1}
	if cached {
		opts.CachedReporter = crec
	} else {
		opts.Reporter = rec
	}
	root := newRootScope(opts, 0)
	a, b, c := verifrt.Float64("v"), verifrt.Float64("v"), verifrt.Float64("v")
	old := root.SubScope("a")
	h := old.Gauge("g")
	h.Update(a)
	old.(*scope).Close()
	root.reportRegistry() // last report of "a", then it is dropped
	lateFirst := verifrt.Choose("late-update-before-creation", 2) == 1
	if lateFirst {
		h.Update(b)
	}
	live := root.SubScope("b").Gauge("d")
	live.Update(c)
	if !lateFirst {
		h.Update(b)
	}
	root.reportRegistry()
	h.Update(b)
	root.reportRegistry()
	n := 0
	var last uint64
	if cached {
		for _, cl := range crec.calls {
			if cl.kind == "gauge" && crec.allocs[cl.alloc].name == "b.d" {
				n++
				last = fbits(cl.f)
				verifrt.Assert("c02.retired-handle.live-gauge-only-delivers-its-own-updates", fbits(cl.f) == fbits(c))
			}
		}
	} else {
		for _, cl := range rec.calls {
			if cl.kind == "gauge" && cl.name == "b.d" {
				n++
				last = fbits(cl.f)
				verifrt.Assert("c02.retired-handle.live-gauge-only-delivers-its-own-updates", fbits(cl.f) == fbits(c))
			}
		}
	}
	verifrt.Assert("c02.retired-handle.live-gauge-delivered-once", n == 1 && last == fbits(c))
	verifrt.Reach("c02.retired-handle.end")
}
