//go:build verif

package tally

import (
	"sync"
	"unicode/utf8"

	"github.com/uber-go/tally/v4/internal/verifrt"
)

// symbolic ValidCharacters: two ranges, two extra runes
func c06Chars(nr, nc int) ValidCharacters {
	var vc ValidCharacters
	for i := 0; i < nr; i++ {
		lo, hi := verifrt.Rune("range.lo"), verifrt.Rune("range.hi")
		vc.Ranges = append(vc.Ranges, SanitizeRange{lo, hi})
	}
	for i := 0; i < nc; i++ {
		vc.Characters = append(vc.Characters, verifrt.Rune("extra"))
	}
	return vc
}

func c06Allowed(vc ValidCharacters, r rune) bool {
	ok := false
	for _, rg := range vc.Ranges {
		ok = verifrt.Or(ok, verifrt.And(r >= rg[0], r <= rg[1]))
	}
	for _, c := range vc.Characters {
		ok = verifrt.Or(ok, c == r)
	}
	return ok
}

func validScalar(r rune) bool {
	return verifrt.Or(verifrt.And(r >= 0, r < 0xD800), verifrt.And(r > 0xDFFF, r <= 0x10FFFF))
}

// VerifC06Fn: the sanitize function on all strings of length n, all configurations.
func VerifC06Fn() {
	n := verifrt.Choose("len", 4) // 0..3 bytes
	c06Fn(n, 1, 1)
}

func VerifC06Fn4() { c06Fn(4, 1, 1) }

// two ranges, two extra characters, inputs up to 2 bytes
func VerifC06FnWide() { c06Fn(verifrt.Choose("len", 3), 2, 2) }

// two (possibly overlapping, nested, empty or single-rune) ranges, no extra characters, inputs
// of 1..2 bytes: configurations in which one range lies inside or across the other
func VerifC06TwoRanges() { c06Fn(1+verifrt.Choose("len", 2), 2, 0) }

func c06Fn(n, nr, nc int) {
	vc := c06Chars(nr, nc)
	rep := verifrt.Rune("replacement")
	verifrt.Assume(validScalar(rep))
	fn := vc.sanitizeFn(rep)
	in := verifrt.String("input", n)
	verifrt.Class("replacement-char-U+FFFD-is-allowed", c06Allowed(vc, utf8.RuneError))
	out := fn(in)
	verifrt.EmitS("out", out)

	// walk input and output in lock step
	inRunes := 0
	allValid := true
	type rr struct {
		r     rune
		w     int
		valid bool
	}
	var ins []rr
	for i := 0; i < len(in); {
		r, w := utf8.DecodeRuneInString(in[i:])
		badEnc := r == utf8.RuneError && w == 1
		v := verifrt.And(c06Allowed(vc, r), !badEnc)
		ins = append(ins, rr{r, w, v})
		allValid = verifrt.And(allValid, v)
		inRunes++
		i += w
	}
	// valid input is returned unchanged
	if len(out) == len(in) {
		verifrt.Assert("c06.valid-input-unchanged", verifrt.Implies(allValid, out == in))
	} else {
		verifrt.Assert("c06.valid-input-unchanged", verifrt.Not(allValid))
	}
	// every output rune is allowed or the replacement; rune count preserved;
	// no invalid byte sequence is passed through
	outRunes := 0
	k := 0
	for i := 0; i < len(out); {
		r, w := utf8.DecodeRuneInString(out[i:])
		badEnc := r == utf8.RuneError && w == 1
		verifrt.Assert("c06.invalid-byte-never-passed-through", !badEnc)
		verifrt.Assert("c06.output-rune-allowed-or-replacement", verifrt.Or(c06Allowed(vc, r), r == rep))
		if k < len(ins) {
			// position-wise: allowed input runes are kept, others replaced
			verifrt.Assert("c06.rune-kept-or-replaced",
				verifrt.Or(verifrt.And(ins[k].valid, r == ins[k].r), verifrt.And(verifrt.Not(ins[k].valid), r == rep)))
		}
		k++
		outRunes++
		i += w
	}
	verifrt.Assert("c06.rune-count-preserved", outRunes == inRunes)
	// deterministic (second call takes a recycled pool buffer) and idempotent
	out2 := fn(in)
	verifrt.Assert("c06.deterministic", len(out2) == len(out) && out2 == out)
	out3 := fn(out)
	verifrt.Assert("c06.idempotent", len(out3) == len(out) && out3 == out)
	verifrt.Reach("c06.fn.end")
}

// VerifC06NoOp: without options everything passes byte for byte.
func VerifC06NoOp() {
	n := verifrt.Choose("len", 5)
	s := verifrt.String("input", n)
	z := NewNoOpSanitizer()
	verifrt.Assert("c06.noop-name", z.Name(s) == s)
	verifrt.Assert("c06.noop-key", z.Key(s) == s)
	verifrt.Assert("c06.noop-value", z.Value(s) == s)
	verifrt.Reach("c06.noop.end")
}

// VerifC06Concurrent: two goroutines sanitize at the same time through one sanitizer (the
// scratch buffers are pooled): each gets exactly the sanitized form of its own string, on every
// schedule with at most 2 preemptions and every hand-over the pool model allows.
func VerifC06Concurrent() {
	vc := ValidCharacters{Ranges: []SanitizeRange{{'a', 'z'}}}
	fn := vc.sanitizeFn('_')
	// warm the pool with a used buffer
	fn("zz!")
	var out [2]string
	var wg sync.WaitGroup
	verifrt.Explore(2)
	wg.Add(2)
	go func() { defer wg.Done(); out[0] = fn("q!68") }()
	go func() { defer wg.Done(); out[1] = fn("d-159") }()
	wg.Wait()
	verifrt.StopExplore()
	verifrt.Assert("c06.concurrent.first-result", out[0] == "q___")
	verifrt.Assert("c06.concurrent.second-result", out[1] == "d____")
	verifrt.Assert("c06.concurrent.deterministic-afterwards", fn("q!68") == "q___")
	verifrt.Reach("c06.concurrent.end")
}

// VerifC06CallerKeepsItsMap: the tag map given to Tagged stays the caller's.  The caller goes
// on writing to it (a new, invalid key and an invalid value for the old key) after the scope
// was derived; whatever is delivered for that scope afterwards still consists of the
// sanitized form of the tags as they were at the Tagged call - with or without root tags,
// for a key/value byte that is valid already or not.
func VerifC06CallerKeepsItsMap() {
	rec := &vReporter{}
	opts := ScopeOptions{Reporter: rec, OmitCardinalityMetrics: true, registryShardCount: 1,
		SanitizeOptions: &SanitizeOptions{
			NameCharacters:       ValidCharacters{Ranges: []SanitizeRange{{'a', 'z'}}},
			KeyCharacters:        ValidCharacters{Ranges: []SanitizeRange{{'a', 'z'}}},
			ValueCharacters:      ValidCharacters{Ranges: []SanitizeRange{{'a', 'z'}}},
			ReplacementCharacter: '_',
		}}
	rooted := verifrt.Choose("root.tagged", 2) == 1
	if rooted {
		opts.Tags = map[string]string{"r": "t"}
	}
	root := newRootScope(opts, 0)
	k, v := verifrt.String("key", 1), verifrt.String("val", 1)
	verifrt.Assume(k != "r")
	wantK, wantV := root.sanitizer.Key(k), root.sanitizer.Value(v)
	tags := map[string]string{k: v}
	s := root.Tagged(tags)
	s.Counter("c").Inc(1)
	root.reportRegistry()
	// the caller's map is the caller's: it is reused for something else
	tags["b/d"] = "x y"
	tags[k] = "Z!"
	s.Counter("c").Inc(1)
	s.Gauge("g").Update(1)
	root.reportRegistry()
	verifrt.Assert("c06.caller-map.caller-sees-its-own-writes", len(tags) == 2 && tags[k] == "Z!")
	n := 0
	for _, c := range rec.calls {
		n++
		want := 1
		if rooted {
			want = 2
			verifrt.Assert("c06.caller-map.root-tag-delivered", c.tags["r"] == "t")
		}
		verifrt.Assert("c06.caller-map.tag-count-as-derived", len(c.tags) == want)
		got, ok := c.tags[wantK]
		verifrt.Assert("c06.caller-map.tags-as-sanitized-at-the-tagged-call", ok && got == wantV)
		for tk, tv := range c.tags {
			for i := 0; i < len(tk); i++ {
				verifrt.Assert("c06.caller-map.delivered-key-allowed", verifrt.Or(verifrt.And(tk[i] >= 'a', tk[i] <= 'z'), tk[i] == '_'))
			}
			for i := 0; i < len(tv); i++ {
				verifrt.Assert("c06.caller-map.delivered-value-allowed", verifrt.Or(verifrt.And(tv[i] >= 'a', tv[i] <= 'z'), tv[i] == '_'))
			}
		}
	}
	verifrt.Assert("c06.caller-map.three-deliveries", n == 3)
	verifrt.Reach("c06.caller-map.end")
}

// VerifC06RolesIndependent: one sanitizer serves three roles with three different character
// sets.  The result for a string in one role depends on that role's set only - not on whether
// the same spelling went through another role before (any order of the three roles, each role
// asked twice; strings of 1..2 symbolic bytes).
func VerifC06RolesIndependent() {
	opts := SanitizeOptions{
		NameCharacters:       ValidCharacters{Ranges: []SanitizeRange{{'a', 'z'}}, Characters: []rune{'.'}},
		KeyCharacters:        ValidCharacters{Ranges: []SanitizeRange{{'a', 'z'}}},
		ValueCharacters:      ValidCharacters{Ranges: []SanitizeRange{{'a', 'z'}}, Characters: []rune{'/', '.'}},
		ReplacementCharacter: '_',
	}
	z := NewSanitizer(opts)
	s := verifrt.String("s", 1+verifrt.Choose("len", 2))
	ref := func(vc ValidCharacters) string {
		out := ""
		for i := 0; i < len(s); {
			r, w := utf8.DecodeRuneInString(s[i:])
			ok := verifrt.And(c06Allowed(vc, r), verifrt.Not(r == utf8.RuneError && w == 1))
			if ok { // forks per rune
				out += s[i : i+w]
			} else {
				out += "_"
			}
			i += w
		}
		return out
	}
	want := [3]string{ref(opts.NameCharacters), ref(opts.KeyCharacters), ref(opts.ValueCharacters)}
	ask := func(role int) string {
		switch role {
		case 0:
			return z.Name(s)
		case 1:
			return z.Key(s)
		}
		return z.Value(s)
	}
	first := verifrt.Choose("first-role", 3)
	second := (first + 1 + verifrt.Choose("second-role", 2)) % 3
	third := 3 - first - second
	for round := 0; round < 2; round++ {
		for _, role := range []int{first, second, third} {
			got := ask(role)
			verifrt.Assert("c06.roles.result-depends-on-the-role-only", len(got) == len(want[role]) && got == want[role])
		}
	}
	verifrt.Reach("c06.roles.end")
}
