//go:build verif

package tally

import (
	"github.com/uber-go/tally/v4/internal/verifrt"
)

// This file holds the harnesses that look at the private representation of the metric
// (field names).  They are a separate job of the check: a change of representation makes
// this file fail to compile (reported as inconclusive for this job) without taking the
// behavioural harnesses down with it.

// VerifC02Step: one report from an arbitrary gauge state.
func VerifC02Step() {
	g := newGauge(logCachedGauge{})
	g.curr = verifrt.Uint64("curr")
	g.updated = verifrt.Uint64("flag")
	verifrt.Assume(g.updated <= 1)
	curr, flag := g.curr, g.updated
	if verifrt.Choose("cached", 2) == 1 {
		g.cachedReport()
	} else {
		g.report("g", nil, logReporter{})
	}
	verifrt.Assert("c02.step.delivered-iff-flag", (verifrt.LogLen() == 1) == (flag == 1))
	if verifrt.LogLen() == 1 {
		verifrt.Assert("c02.step.value-bit-for-bit", verifrt.LogAt(0) == curr)
	}
	verifrt.Assert("c02.step.flag-cleared", g.updated == 0 && g.curr == curr)
	v := verifrt.Float64("v")
	g.Update(v)
	verifrt.Assert("c02.step.update", g.updated == 1 && g.curr == fbits(v))
	verifrt.Reach("c02.step.end")
}
