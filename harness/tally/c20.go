//go:build verif

package tally

import (
	"math"
	"time"

	"github.com/uber-go/tally/v4/internal/verifrt"
)

func panics(f func()) (p bool) {
	defer func() {
		if r := recover(); r != nil {
			p = true
		}
	}()
	f()
	return false
}

// VerifC20Constructors: the four constructors and their Must variants.
func VerifC20Constructors() {
	n := verifrt.Choose("n", 7) - 2 // -2..4
	switch verifrt.Choose("ctor", 4) {
	case 0:
		start, width := verifrt.Float64("start"), verifrt.Float64("width")
		verifrt.Assume(verifrt.And(finite(start), finite(width)))
		b, err := LinearValueBuckets(start, width, n)
		verifrt.Assert("c20.linear-value.error-iff-n<=0", (err != nil) == (n <= 0))
		if err == nil {
			verifrt.Assert("c20.linear-value.len", len(b) == n)
			for i := range b {
				verifrt.EmitF("b", b[i])
				verifrt.Assert("c20.linear-value.recurrence", fbits(b[i]) == fbits(start+(float64(i)*width)))
			}
			verifrt.Assert("c20.linear-value.first-is-start", b[0] == start)
			if n > 1 {
				verifrt.Assert("c20.linear-value.second-is-start-plus-width", fbits(b[1]) == fbits(start+width))
			}
		} else {
			verifrt.Assert("c20.linear-value.nil-on-error", b == nil)
		}
		verifrt.Assert("c20.linear-value.must-panics-iff-error",
			panics(func() { MustMakeLinearValueBuckets(start, width, n) }) == (err != nil))
	case 1:
		start, width := time.Duration(verifrt.Int64("start")), time.Duration(verifrt.Int64("width"))
		b, err := LinearDurationBuckets(start, width, n)
		verifrt.Assert("c20.linear-duration.error-iff-n<=0", (err != nil) == (n <= 0))
		if err == nil {
			verifrt.Assert("c20.linear-duration.len", len(b) == n)
			acc := start
			for i := range b {
				verifrt.Emit("b", int64(b[i]))
				verifrt.Assert("c20.linear-duration.recurrence(start,+width,...)", b[i] == acc)
				acc += width
			}
		}
		verifrt.Assert("c20.linear-duration.must-panics-iff-error",
			panics(func() { MustMakeLinearDurationBuckets(start, width, n) }) == (err != nil))
	case 2:
		start, factor := verifrt.Float64("start"), verifrt.Float64("factor")
		b, err := ExponentialValueBuckets(start, factor, n)
		bad := verifrt.Or(n <= 0, verifrt.Or(start <= 0, factor <= 1))
		verifrt.Assert("c20.exp-value.error-iff-bad-args", (err != nil) == bad)
		if err == nil {
			verifrt.Assert("c20.exp-value.len", len(b) == n)
			curr := start
			for i := range b {
				verifrt.EmitF("b", b[i])
				verifrt.Assert("c20.exp-value.recurrence(start,*factor,...)", fbits(b[i]) == fbits(curr))
				curr *= factor
			}
		}
		verifrt.Assert("c20.exp-value.must-panics-iff-error",
			panics(func() { MustMakeExponentialValueBuckets(start, factor, n) }) == (err != nil))
	case 3:
		start, factor := time.Duration(verifrt.Int64("start")), verifrt.Float64("factor")
		b, err := ExponentialDurationBuckets(start, factor, n)
		bad := verifrt.Or(n <= 0, verifrt.Or(start <= 0, factor <= 1))
		verifrt.Assert("c20.exp-duration.error-iff-bad-args", (err != nil) == bad)
		if err == nil {
			verifrt.Assert("c20.exp-duration.len", len(b) == n)
			curr := start
			for i := range b {
				verifrt.Assert("c20.exp-duration.recurrence", b[i] == curr)
				curr = time.Duration(float64(curr) * factor)
			}
		}
		verifrt.Assert("c20.exp-duration.must-panics-iff-error",
			panics(func() { MustMakeExponentialDurationBuckets(start, factor, n) }) == (err != nil))
	}
	verifrt.Reach("c20.ctor.end")
}

// symbolic bucket set of size 1..2 (value or duration)
func c20Spec(tag string) (Buckets, []uint64, bool) {
	n := 1 + verifrt.Choose(tag+".n", 2)
	if verifrt.Choose(tag+".kind", 2) == 0 {
		vb := make(ValueBuckets, n)
		bits := make([]uint64, n)
		for i := range vb {
			vb[i] = verifrt.Float64(tag + ".bound")
			verifrt.Assume(finite(vb[i]))
			bits[i] = fbits(vb[i])
		}
		return vb, bits, false
	}
	db := make(DurationBuckets, n)
	bits := make([]uint64, n)
	for i := range db {
		db[i] = time.Duration(verifrt.Int64(tag + ".bound"))
		bits[i] = uint64(db[i])
	}
	return db, bits, true
}

// checkOwnBounds: the histogram uses exactly (the sorted copy of) the spec it was created with.
func checkOwnBounds(label string, hi Histogram, spec Buckets, orig []uint64, isDur bool) {
	h := hi.(*histogram)
	n := spec.Len()
	verifrt.Assert(label+".bucket-count", len(h.buckets) == n+1)
	if len(h.buckets) != n+1 {
		return
	}
	if isDur {
		verifrt.Assert(label+".type", h.htype == durationHistogramType)
		d := spec.AsDurations()
		lo, hi2 := d[0], d[n-1]
		if n == 2 && d[1] < d[0] {
			lo, hi2 = d[1], d[0]
		}
		verifrt.Assert(label+".keeps-own-bounds", h.buckets[0].durationUpperBound == lo && h.buckets[n-1].durationUpperBound == hi2)
		verifrt.Assert(label+".terminal", h.buckets[n].durationUpperBound == time.Duration(math.MaxInt64))
		for i := range d {
			verifrt.Assert(label+".caller-slice-unchanged", uint64(d[i]) == orig[i])
		}
	} else {
		verifrt.Assert(label+".type", h.htype == valueHistogramType)
		v := spec.AsValues()
		lo, hi2 := v[0], v[n-1]
		if n == 2 && v[1] < v[0] {
			lo, hi2 = v[1], v[0]
		}
		// numeric equality: -0 and +0 are the same bound
		verifrt.Assert(label+".keeps-own-bounds", verifrt.And(h.buckets[0].valueUpperBound == lo, h.buckets[n-1].valueUpperBound == hi2))
		verifrt.Assert(label+".terminal", fbits(h.buckets[n].valueUpperBound) == fbits(math.MaxFloat64))
		for i := range v {
			verifrt.Assert(label+".caller-slice-unchanged", fbits(v[i]) == orig[i])
		}
	}
}

// VerifC20Cache: histograms created one after the other under one root with bucket
// sets the solver may choose to collide in the bucket cache.
func VerifC20Cache()  { c20Cache(2) }
func VerifC20Cache3() { c20Cache(3) }

func c20Cache(k int) {
	rec := &vReporter{}
	root := newRootScope(ScopeOptions{Reporter: rec, OmitCardinalityMetrics: true, registryShardCount: 1}, 0)
	sub := root.SubScope("s")
	names := []string{"a", "b", "c"}
	var hs []Histogram
	var specs []Buckets
	var origs [][]uint64
	var durs []bool
	for i := 0; i < k; i++ {
		spec, orig, isDur := c20Spec(names[i])
		var sc Scope = root
		if i%2 == 1 {
			sc = sub
		}
		hs = append(hs, sc.Histogram(names[i], spec))
		specs, origs, durs = append(specs, spec), append(origs, orig), append(durs, isDur)
	}
	for i := range hs {
		checkOwnBounds("c20.cache", hs[i], specs[i], origs[i], durs[i])
	}
	verifrt.Reach("c20.cache.end")
}

// VerifC20CacheConcurrent: the cache must hand every histogram its own bounds also when two
// different sets with the same identity are first created concurrently (see c09.go).
func VerifC20CacheConcurrent() {
	c09CollidePrefix = "c20.cache.concurrent"
	VerifC09BucketCacheCollide()
}

// VerifC20CallerReusesSlice: "the bounds it was created with" are the contents of the spec at
// the time of the Histogram call.  The caller creates one histogram, rewrites the same slice in
// place (any new contents: the solver may pick contents that collide with the old ones in the
// cache identity, for instance {1s,4s} -> {2s,3s}) and creates a second histogram with it.
// The second histogram must use the new contents, the first keeps the old ones.
func VerifC20CallerReusesSlice() {
	rec := &vReporter{}
	root := newRootScope(ScopeOptions{Reporter: rec, OmitCardinalityMetrics: true, registryShardCount: 1}, 0)
	if verifrt.Choose("reuse.kind", 2) == 0 {
		b := make(DurationBuckets, 2)
		a0, a1 := verifrt.Int64("reuse.first"), verifrt.Int64("reuse.first")
		b[0], b[1] = time.Duration(a0), time.Duration(a1)
		h1 := root.Histogram("a", b)
		checkOwnBounds("c20.reuse.first", h1, b, []uint64{uint64(a0), uint64(a1)}, true)
		c0, c1 := verifrt.Int64("reuse.second"), verifrt.Int64("reuse.second")
		b[0], b[1] = time.Duration(c0), time.Duration(c1)
		h2 := root.SubScope("s").Histogram("b", b)
		checkOwnBounds("c20.reuse.second", h2, b, []uint64{uint64(c0), uint64(c1)}, true)
		lo, hi := a0, a1
		if a1 < a0 {
			lo, hi = a1, a0
		}
		hb := h1.(*histogram).buckets
		verifrt.Assert("c20.reuse.first-keeps-creation-time-bounds",
			len(hb) == 3 && int64(hb[0].durationUpperBound) == lo && int64(hb[1].durationUpperBound) == hi)
	} else {
		b := make(ValueBuckets, 2)
		a0, a1 := verifrt.Float64("reuse.first"), verifrt.Float64("reuse.first")
		verifrt.Assume(verifrt.And(finite(a0), finite(a1)))
		b[0], b[1] = a0, a1
		h1 := root.Histogram("a", b)
		checkOwnBounds("c20.reuse.first", h1, b, []uint64{fbits(a0), fbits(a1)}, false)
		c0, c1 := verifrt.Float64("reuse.second"), verifrt.Float64("reuse.second")
		verifrt.Assume(verifrt.And(finite(c0), finite(c1)))
		b[0], b[1] = c0, c1
		h2 := root.SubScope("s").Histogram("b", b)
		checkOwnBounds("c20.reuse.second", h2, b, []uint64{fbits(c0), fbits(c1)}, false)
		lo, hi := a0, a1
		if a1 < a0 {
			lo, hi = a1, a0
		}
		hb := h1.(*histogram).buckets
		verifrt.Assert("c20.reuse.first-keeps-creation-time-bounds",
			verifrt.And(len(hb) == 3, verifrt.And(hb[0].valueUpperBound == lo, hb[1].valueUpperBound == hi)))
	}
	verifrt.Reach("c20.reuse.end")
}
