//go:build verif

package tally

import (
	"errors"
	"sync"
	"time"

	"github.com/uber-go/tally/v4/internal/verifrt"
)

const (
	evCounter = 1001
	evFlush   = 1002
	evClose   = 1003
	evReturn  = 1004 // marker: a Close call returned
)

// seqReporter logs every call into the globally ordered log.
type seqReporter struct{ closeErr error }

func (r *seqReporter) ReportCounter(name string, tags map[string]string, value int64) {
	verifrt.LogAppend(evCounter)
	verifrt.LogAppend(uint64(value))
}
// calls other than counter deliveries (none are made before Close in these harnesses)
var c08OtherCalls int

func (r *seqReporter) ReportGauge(name string, tags map[string]string, value float64)   { c08OtherCalls++ }
func (r *seqReporter) ReportTimer(name string, tags map[string]string, d time.Duration) { c08OtherCalls++ }
func (r *seqReporter) ReportHistogramValueSamples(name string, tags map[string]string, b Buckets, lo, hi float64, s int64) {
	c08OtherCalls++
}
func (r *seqReporter) ReportHistogramDurationSamples(name string, tags map[string]string, b Buckets, lo, hi time.Duration, s int64) {
	c08OtherCalls++
}
func (r *seqReporter) Capabilities() Capabilities { return capabilitiesReportingTagging }
func (r *seqReporter) Flush()                     { verifrt.LogAppend(evFlush) }

type seqCloserReporter struct{ seqReporter }

func (r *seqCloserReporter) Close() error {
	verifrt.LogAppend(evClose)
	return r.closeErr
}

// logSummary scans log[0:n): sum of counter deliveries, index of last flush / close, counts.
func logSummary(n int) (sum int64, flushes, closes, lastFlush, lastReport, closeAt int) {
	lastFlush, lastReport, closeAt = -1, -1, -1
	for i := 0; i < n; i++ {
		switch verifrt.LogAt(i) {
		case evCounter:
			i++
			sum += int64(verifrt.LogAt(i))
			lastReport = i
		case evFlush:
			flushes++
			lastFlush = i
		case evClose:
			closes++
			closeAt = i
		}
	}
	return
}

// c08Close: a root with a reporting interval (ticker delivers up to `ticks` ticks), values
// recorded before Close, `closers` concurrent Close callers.
var c08Shards uint = 1
var c08LateInc bool

func c08Close(interval bool, ticks, closers, preempt int, withCloser bool) {
	verifrt.SetTicks(ticks)
	closeErr := errors.New("reporter close error")
	var rep StatsReporter
	if withCloser {
		rep = &seqCloserReporter{seqReporter{closeErr: closeErr}}
	} else {
		rep = &seqReporter{}
	}
	v1, v2 := verifrt.Int64("inc"), verifrt.Int64("inc")
	verifrt.Assume(verifrt.And(v1 != 0, verifrt.And(v2 != 0, v1+v2 != 0)))
	verifrt.Explore(preempt)
	var iv time.Duration
	if interval {
		iv = time.Second
	}
	root := newRootScope(ScopeOptions{Reporter: rep, OmitCardinalityMetrics: true, registryShardCount: c08Shards}, iv)
	sub := root.SubScope("s")
	c1, c2 := root.Counter("a"), sub.Counter("b")
	c1.Inc(v1)
	c2.Inc(v2)
	if c08LateInc {
		// one more increment on the root, by another goroutine, possibly while a periodic pass
		// is half-way through the registry; it has returned before Close is called
		v3 := verifrt.Int64("inc")
		verifrt.Assume(verifrt.And(v3 != 0, v1+v3 != 0))
		var iwg sync.WaitGroup
		iwg.Add(1)
		go func() { defer iwg.Done(); c1.Inc(v3) }()
		iwg.Wait()
		v1 += v3
	}
	// everything above is recorded before Close is called
	errs := make([]error, closers)
	at := make([]int, closers)
	var wg sync.WaitGroup
	for i := 1; i < closers; i++ {
		wg.Add(1)
		go func(i int) {
			defer wg.Done()
			errs[i] = root.Close()
			at[i] = verifrt.LogLen()
		}(i)
	}
	errs[0] = root.Close()
	at[0] = verifrt.LogLen()
	wg.Wait()
	verifrt.StopExplore()
	// let whatever is still running finish
	verifrt.WaitIdle()
	total := verifrt.LogLen()
	// barrier: at the return of every Close call everything recorded before has been
	// delivered, followed by a Flush (and the reporter's Close, once)
	nonNil := 0
	for i := 0; i < closers; i++ {
		sum, flushes, closes, lastFlush, lastReport, closeAt := logSummary(at[i])
		verifrt.Assert("c08.everything-delivered-before-close-returns", sum == v1+v2)
		verifrt.Assert("c08.flush-follows-the-last-delivery", flushes >= 1 && lastFlush > lastReport)
		if withCloser {
			verifrt.Assert("c08.reporter-closed-once-after-final-flush", closes == 1 && closeAt > lastFlush)
		}
		if errs[i] != nil {
			nonNil++
			verifrt.Assert("c08.close-returns-the-reporters-error", errs[i] == closeErr)
		}
	}
	if withCloser {
		verifrt.Assert("c08.exactly-one-caller-gets-the-error", nonNil == 1)
	} else {
		verifrt.Assert("c08.no-error-without-closer", nonNil == 0)
	}
	minAt := at[0]
	for _, a := range at {
		if a < minAt {
			minAt = a
		}
	}
	_ = minAt
	maxAt := at[0]
	for _, a := range at {
		if a > maxAt {
			maxAt = a
		}
	}
	verifrt.Assert("c08.nothing-is-reported-or-flushed-after-close-returned", total == maxAt)
	verifrt.Assert("c08.reporting-goroutine-has-ended", verifrt.LiveThreads() == 0)
	// idempotent, inert afterwards
	verifrt.Assert("c08.second-close-returns-nil", root.Close() == nil)
	verifrt.Assert("c08.second-close-delivers-nothing", verifrt.LogLen() == total)
	late := root.SubScope("late")
	late.Counter("x").Inc(1)
	c1.Inc(5)
	root.Tagged(map[string]string{"k": "v"}).Gauge("g").Update(1)
	verifrt.Assert("c08.scopes-obtained-after-close-are-inert", late.(*scope) == NoopScope.(*scope))
	// every way of obtaining a scope afterwards, from the root or from an old subscope, with
	// any tag map (nil and empty included); every kind of metric, timers report at once
	c08OtherCalls = 0
	var derived []Scope
	how := 0 // concurrent variants: one derivation, the sequential one: all of them
	if preempt == 0 {
		how = verifrt.Choose("derivation-after-close", 5)
	}
	switch how {
	case 0:
		derived = append(derived, root.Tagged(nil))
	case 1:
		derived = append(derived, root.Tagged(map[string]string{}))
	case 2:
		derived = append(derived, sub.Tagged(map[string]string{}), sub.SubScope(""))
	case 3:
		derived = append(derived, root.SubScope(""), root.Tagged(map[string]string{"k": "v"}))
	case 4:
		derived = append(derived, sub.Tagged(nil), sub.SubScope("t"))
	}
	for _, d := range derived {
		d.Counter("x").Inc(1)
		d.Gauge("g").Update(1)
		d.Timer("t").Record(time.Second)
		d.Timer("t").Start().Stop()
		d.Histogram("h", ValueBuckets{1}).RecordValue(1)
		verifrt.Assert("c08.scope-obtained-after-close-does-not-report", !d.Capabilities().Reporting())
	}
	verifrt.Assert("c08.scopes-obtained-after-close-never-reach-the-reporter",
		c08OtherCalls == 0 && verifrt.LogLen() == total)
	verifrt.Reach("c08.close.end")
}

func VerifC08NoInterval()  { c08Close(false, 0, 1, 0, true) }
func VerifC08Interval()    { c08Close(true, 1, 1, 2, true) }
func VerifC08NoCloser()    { c08Close(true, 1, 1, 2, false) }
func VerifC08TwoClosers()  { c08Close(true, 1, 2, 2, true) }
func VerifC08TwoTicks()    { c08Close(true, 2, 1, 2, true) }
func VerifC08TwoClosers0() { c08Close(false, 0, 2, 2, true) }
func VerifC08Preempt3()    { c08Close(true, 1, 1, 3, true) }

// VerifC08Shards2Late: two registry shards (the root is in both) and an increment that lands
// while a periodic pass may be between them.
func VerifC08Shards2Late() { c08Shards, c08LateInc = 2, true; c08Close(true, 1, 1, 1, false) }
