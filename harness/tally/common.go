//go:build verif

package tally

import (
	"math"
	"time"

	"github.com/uber-go/tally/v4/internal/verifrt"
)

// b2i converts a (possibly symbolic) bool to 0/1 without forking.
func b2i(c bool) int64 { return verifrt.IteInt64(c, 1, 0) }

func fbits(f float64) uint64 { return math.Float64bits(f) }

func finite(f float64) bool {
	return verifrt.And(f >= -math.MaxFloat64, f <= math.MaxFloat64)
}

// recorded calls of the plain reporter
type vCall struct {
	kind   string // counter gauge timer hv hd
	name   string
	tags   map[string]string
	i      int64
	f      float64
	lo, hi float64
	dlo    time.Duration
	dhi    time.Duration
}

type vReporter struct {
	calls   []vCall
	flushes int
}

func (r *vReporter) ReportCounter(name string, tags map[string]string, value int64) {
	r.calls = append(r.calls, vCall{kind: "counter", name: name, tags: tags, i: value})
}
func (r *vReporter) ReportGauge(name string, tags map[string]string, value float64) {
	r.calls = append(r.calls, vCall{kind: "gauge", name: name, tags: tags, f: value})
}
func (r *vReporter) ReportTimer(name string, tags map[string]string, interval time.Duration) {
	r.calls = append(r.calls, vCall{kind: "timer", name: name, tags: tags, i: int64(interval)})
}
func (r *vReporter) ReportHistogramValueSamples(name string, tags map[string]string, buckets Buckets, lo, hi float64, samples int64) {
	r.calls = append(r.calls, vCall{kind: "hv", name: name, tags: tags, lo: lo, hi: hi, i: samples})
}
func (r *vReporter) ReportHistogramDurationSamples(name string, tags map[string]string, buckets Buckets, lo, hi time.Duration, samples int64) {
	r.calls = append(r.calls, vCall{kind: "hd", name: name, tags: tags, dlo: lo, dhi: hi, i: samples})
}
func (r *vReporter) Capabilities() Capabilities { return capabilitiesReportingTagging }
func (r *vReporter) Flush()                     { r.flushes++ }
