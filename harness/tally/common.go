//go:build verif

package tally

import (
	"math"
	"sync"
	"time"

	"github.com/uber-go/tally/v4/internal/verifrt"
)

// b2i converts a (possibly symbolic) bool to 0/1 without forking.
func b2i(c bool) int64 { return verifrt.IteInt64(c, 1, 0) }

func fbits(f float64) uint64 { return math.Float64bits(f) }

func finite(f float64) bool {
	return verifrt.And(f >= -math.MaxFloat64, f <= math.MaxFloat64)
}

// recorded calls of the plain reporter
type vCall struct {
	kind   string // counter gauge timer hv hd
	name   string
	tags   map[string]string
	i      int64
	f      float64
	lo, hi float64
	dlo    time.Duration
	dhi    time.Duration
}

type vReporter struct {
	calls   []vCall
	flushes int
}

func (r *vReporter) ReportCounter(name string, tags map[string]string, value int64) {
	r.calls = append(r.calls, vCall{kind: "counter", name: name, tags: tags, i: value})
}
func (r *vReporter) ReportGauge(name string, tags map[string]string, value float64) {
	r.calls = append(r.calls, vCall{kind: "gauge", name: name, tags: tags, f: value})
}
func (r *vReporter) ReportTimer(name string, tags map[string]string, interval time.Duration) {
	r.calls = append(r.calls, vCall{kind: "timer", name: name, tags: tags, i: int64(interval)})
}
func (r *vReporter) ReportHistogramValueSamples(name string, tags map[string]string, buckets Buckets, lo, hi float64, samples int64) {
	r.calls = append(r.calls, vCall{kind: "hv", name: name, tags: tags, lo: lo, hi: hi, i: samples})
}
func (r *vReporter) ReportHistogramDurationSamples(name string, tags map[string]string, buckets Buckets, lo, hi time.Duration, samples int64) {
	r.calls = append(r.calls, vCall{kind: "hd", name: name, tags: tags, dlo: lo, dhi: hi, i: samples})
}
func (r *vReporter) Capabilities() Capabilities { return capabilitiesReportingTagging }
func (r *vReporter) Flush()                     { r.flushes++ }

// ---- cached reporter that records allocations and reports --------------------------

type vAlloc struct {
	kind string // counter gauge timer histogram
	name string
	tags map[string]string
	spec Buckets
}

type vCachedCall struct {
	alloc  int // index into allocs
	kind   string
	i      int64
	f      float64
	bucket int // index into buckets for samples
}

type vBucket struct {
	alloc  int
	isDur  bool
	lo, hi float64
	dlo    time.Duration
	dhi    time.Duration
}

type vCachedReporter struct {
	mu      sync.Mutex // a cached reporter is called from report passes and, for timers, from callers
	allocs  []vAlloc
	buckets []vBucket
	calls   []vCachedCall
	flushes int
	closed  int
}

type vCachedHandle struct {
	r     *vCachedReporter
	alloc int
}

type vCachedBucketHandle struct {
	r      *vCachedReporter
	bucket int
}

func (r *vCachedReporter) alloc(kind, name string, tags map[string]string, spec Buckets) vCachedHandle {
	r.mu.Lock()
	defer r.mu.Unlock()
	r.allocs = append(r.allocs, vAlloc{kind, name, tags, spec})
	return vCachedHandle{r, len(r.allocs) - 1}
}
func (r *vCachedReporter) AllocateCounter(name string, tags map[string]string) CachedCount {
	return r.alloc("counter", name, tags, nil)
}
func (r *vCachedReporter) AllocateGauge(name string, tags map[string]string) CachedGauge {
	return r.alloc("gauge", name, tags, nil)
}
func (r *vCachedReporter) AllocateTimer(name string, tags map[string]string) CachedTimer {
	return r.alloc("timer", name, tags, nil)
}
func (r *vCachedReporter) AllocateHistogram(name string, tags map[string]string, b Buckets) CachedHistogram {
	return r.alloc("histogram", name, tags, b)
}
func (r *vCachedReporter) Capabilities() Capabilities { return capabilitiesReportingTagging }
func (r *vCachedReporter) Flush() {
	r.mu.Lock()
	r.flushes++
	r.mu.Unlock()
}

func (h vCachedHandle) ReportCount(v int64) {
	h.r.mu.Lock()
	h.r.calls = append(h.r.calls, vCachedCall{alloc: h.alloc, kind: "counter", i: v})
	h.r.mu.Unlock()
}
func (h vCachedHandle) ReportGauge(v float64) {
	h.r.mu.Lock()
	h.r.calls = append(h.r.calls, vCachedCall{alloc: h.alloc, kind: "gauge", f: v})
	h.r.mu.Unlock()
}
func (h vCachedHandle) ReportTimer(d time.Duration) {
	h.r.mu.Lock()
	h.r.calls = append(h.r.calls, vCachedCall{alloc: h.alloc, kind: "timer", i: int64(d)})
	h.r.mu.Unlock()
}
func (h vCachedHandle) ValueBucket(lo, hi float64) CachedHistogramBucket {
	h.r.mu.Lock()
	defer h.r.mu.Unlock()
	h.r.buckets = append(h.r.buckets, vBucket{alloc: h.alloc, lo: lo, hi: hi})
	return vCachedBucketHandle{h.r, len(h.r.buckets) - 1}
}
func (h vCachedHandle) DurationBucket(lo, hi time.Duration) CachedHistogramBucket {
	h.r.mu.Lock()
	defer h.r.mu.Unlock()
	h.r.buckets = append(h.r.buckets, vBucket{alloc: h.alloc, isDur: true, dlo: lo, dhi: hi})
	return vCachedBucketHandle{h.r, len(h.r.buckets) - 1}
}
func (b vCachedBucketHandle) ReportSamples(v int64) {
	b.r.mu.Lock()
	defer b.r.mu.Unlock()
	b.r.calls = append(b.r.calls, vCachedCall{alloc: b.r.buckets[b.bucket].alloc, kind: "samples", i: v, bucket: b.bucket})
}
