//go:build verif

package tally

import (
	"io"
	"sync"
	"time"

	"github.com/uber-go/tally/v4/internal/verifrt"
)

// VerifC10Timers: histories over two timers in two scopes, interleaved with report
// passes; plain reporter, cached reporter, and a reporter-less test scope.
func VerifC10Timers()  { c10Timers(3) }
func VerifC10Timers4() { c10Timers(4) }

func c10Timers(steps int) {
	mode := verifrt.Choose("mode", 4) // 0 plain, 1 cached, 2 test scope, 3 both reporters configured
	both := mode == 3
	var root *scope
	rec := &vReporter{}
	crec := &vCachedReporter{}
	switch mode {
	case 0:
		root = newRootScope(ScopeOptions{Prefix: "p", Tags: map[string]string{"r": "1"}, Reporter: rec, OmitCardinalityMetrics: true, registryShardCount: 1}, 0)
	case 1:
		root = newRootScope(ScopeOptions{Prefix: "p", Tags: map[string]string{"r": "1"}, CachedReporter: crec, OmitCardinalityMetrics: true, registryShardCount: 1}, 0)
	case 2:
		root = newRootScope(ScopeOptions{Prefix: "p", Tags: map[string]string{"r": "1"}, testScope: true, registryShardCount: 1}, 0)
	case 3:
		// a scope given both kinds of reporter: a timer that has a cached handle reports through it only
		root = newRootScope(ScopeOptions{Prefix: "p", Tags: map[string]string{"r": "1"}, Reporter: rec, CachedReporter: crec, OmitCardinalityMetrics: true, registryShardCount: 1}, 0)
		mode = 1
	}
	_ = both
	sub := root.SubScope("s").Tagged(map[string]string{"t": "2"})
	timers := []Timer{root.Timer("t1"), sub.Timer("t2")}
	names := []string{"p.t1", "p.s.t2"}
	ntags := []int{1, 2}
	var hist [2][]time.Duration
	delivered := 0
	for s := 0; s < steps; s++ {
		op := verifrt.Choose("op", 3)
		if op == 2 {
			root.reportRegistry()
			// report passes neither repeat nor buffer timer values
			switch mode {
			case 0:
				verifrt.Assert("c10.report-pass-delivers-no-timer", len(rec.calls) == delivered)
			case 1:
				verifrt.Assert("c10.report-pass-delivers-no-timer/cached", len(crec.calls) == delivered)
			}
			continue
		}
		d := time.Duration(verifrt.Int64("d"))
		timers[op].Record(d)
		hist[op] = append(hist[op], d)
		verifrt.Emit("rec", int64(d))
		switch mode {
		case 0:
			verifrt.Assert("c10.exactly-one-delivery-before-record-returns", len(rec.calls) == delivered+1)
			if len(rec.calls) == delivered+1 {
				c := rec.calls[delivered]
				verifrt.Assert("c10.delivery-is-the-value", c.kind == "timer" && c.i == int64(d))
				verifrt.Assert("c10.delivery-name", c.name == names[op])
				verifrt.Assert("c10.delivery-tags", len(c.tags) == ntags[op] && c.tags["r"] == "1" && (op == 0 || c.tags["t"] == "2"))
			}
			delivered = len(rec.calls)
		case 1:
			verifrt.Assert("c10.exactly-one-delivery-before-record-returns/cached", len(crec.calls) == delivered+1)
			if len(crec.calls) == delivered+1 {
				c := crec.calls[delivered]
				verifrt.Assert("c10.cached-delivery-is-the-value", c.kind == "timer" && c.i == int64(d))
				a := crec.allocs[c.alloc]
				verifrt.Assert("c10.cached-delivery-handle", a.kind == "timer" && a.name == names[op] && len(a.tags) == ntags[op])
			}
			verifrt.Assert("c10.cached-path-takes-precedence", len(rec.calls) == 0)
			delivered = len(crec.calls)
		}
	}
	if mode == 2 {
		snap := root.Snapshot().Timers()
		for k := 0; k < 2; k++ {
			tags := map[string]string{"r": "1"}
			if k == 1 {
				tags["t"] = "2"
			}
			ts, ok := snap[KeyForPrefixedStringMap(names[k], tags)]
			verifrt.Assert("c10.test-scope-has-timer", ok)
			if ok {
				vals := ts.Values()
				verifrt.Assert("c10.test-scope-values-count", len(vals) == len(hist[k]))
				for i := range vals {
					if i < len(hist[k]) {
						verifrt.Assert("c10.test-scope-values-in-order", vals[i] == hist[k][i])
					}
				}
			}
		}
	}
	verifrt.Reach("c10.timers.end")
}

// VerifC10Stopwatch: Start/Stop on a timer and on a duration histogram measure now-start.
func VerifC10Stopwatch() {
	saved := globalNow
	defer func() { globalNow = saved }()
	var last int64
	globalNow = func() time.Time {
		n := verifrt.Int64("now")
		verifrt.Assume(verifrt.And(n >= last, n < 1<<61))
		last = n
		verifrt.Emit("now", n)
		return time.Unix(0, n)
	}
	rec := &vReporter{}
	root := newRootScope(ScopeOptions{Reporter: rec, OmitCardinalityMetrics: true, registryShardCount: 1}, 0)
	switch verifrt.Choose("kind", 2) {
	case 0:
		t := root.Timer("t")
		sw := t.Start()
		t0 := last
		// an unrelated stopwatch in between must not disturb the first
		sw2 := root.Timer("u").Start()
		u0 := last
		sw.Stop()
		t1 := last
		sw2.Stop()
		u1 := last
		verifrt.Assert("c10.stopwatch-two-deliveries", len(rec.calls) == 2)
		if len(rec.calls) == 2 {
			verifrt.Assert("c10.stopwatch-records-elapsed", rec.calls[0].name == "t" && rec.calls[0].i == t1-t0)
			verifrt.Assert("c10.stopwatch-records-elapsed/second", rec.calls[1].name == "u" && rec.calls[1].i == u1-u0)
		}
	case 1:
		b1, b2 := verifrt.Int64("bound"), verifrt.Int64("bound")
		h := root.Histogram("h", DurationBuckets{time.Duration(b1), time.Duration(b2)})
		sw := h.Start()
		t0 := last
		sw.Stop()
		d := time.Duration(last - t0)
		root.reportRegistry()
		verifrt.Assert("c10.histogram-stopwatch-one-sample", len(rec.calls) == 1)
		if len(rec.calls) == 1 {
			c := rec.calls[0]
			verifrt.Assert("c10.histogram-stopwatch-bucket-holds-elapsed",
				verifrt.And(c.kind == "hd", verifrt.And(c.i == 1, verifrt.And(c.dhi >= d, verifrt.Or(c.dlo < d, c.dlo == time.Duration(-1<<63))))))
		}
	}
	verifrt.Reach("c10.stopwatch.end")
}

// VerifC10TimerFirstUse: two goroutines make the first use of one timer name on a
// reporter-less (test) scope and record; both values must be in the snapshot (every schedule
// with at most 2 preemptions).
func VerifC10TimerFirstUse() {
	ts := NewTestScope("", nil)
	d1, d2 := verifrt.Int64("dur"), verifrt.Int64("dur")
	verifrt.Assume(d1 != d2)
	var wg sync.WaitGroup
	verifrt.Explore(2)
	wg.Add(2)
	go func() { defer wg.Done(); ts.Timer("t").Record(time.Duration(d1)) }()
	go func() { defer wg.Done(); ts.Timer("t").Record(time.Duration(d2)) }()
	wg.Wait()
	verifrt.StopExplore()
	n1, n2, n := 0, 0, 0
	for _, e := range ts.Snapshot().Timers() {
		for _, v := range e.Values() {
			n++
			n1 += int(b2i(int64(v) == d1))
			n2 += int(b2i(int64(v) == d2))
		}
	}
	verifrt.Assert("c10.first-use.every-recorded-value-in-snapshot-once", verifrt.And(n == 2, verifrt.And(n1 == 1, n2 == 1)))
	verifrt.Reach("c10.first-use.end")
}

// VerifC10StopwatchWallStep: the clock hands out readings with a monotonic part; the wall clock
// is stepped by an arbitrary number of seconds between Start and Stop.  The recorded interval
// is the elapsed (monotonic) time, as time.Time.Sub computes it.
func VerifC10StopwatchWallStep() {
	saved := globalNow
	defer func() { globalNow = saved }()
	var readings []time.Time
	var shift int64
	globalNow = func() time.Time {
		t := verifrt.ShiftWall(time.Now(), shift)
		readings = append(readings, t)
		return t
	}
	rec := &vReporter{}
	root := newRootScope(ScopeOptions{Reporter: rec, OmitCardinalityMetrics: true, registryShardCount: 1}, 0)
	sw := root.Timer("t").Start()
	shift = verifrt.Int64("wall-step-seconds")
	verifrt.Assume(verifrt.And(shift > -(1<<20), shift < 1<<20))
	sw.Stop()
	verifrt.Assert("c10.wallstep.two-clock-readings", len(readings) == 2)
	verifrt.Assert("c10.wallstep.one-delivery", len(rec.calls) == 1)
	if len(readings) == 2 && len(rec.calls) == 1 {
		verifrt.Assert("c10.wallstep.records-elapsed-time-not-wall-difference", rec.calls[0].i == int64(readings[1].Sub(readings[0])))
	}
	verifrt.Reach("c10.wallstep.end")
}

// VerifC10TimerAfterClose: a timer first requested from a subscope after that subscope was
// closed is still a timer: each Record is delivered once, synchronously (plain and cached
// reporter), resp. kept for the snapshot (test scope, whose closed subscopes stay functional).
func VerifC10TimerAfterClose() {
	mode := verifrt.Choose("mode", 3)
	rec := &vReporter{}
	crec := &vCachedReporter{}
	var root *scope
	switch mode {
	case 0:
		root = newRootScope(ScopeOptions{Reporter: rec, OmitCardinalityMetrics: true, registryShardCount: 1}, 0)
	case 1:
		root = newRootScope(ScopeOptions{CachedReporter: crec, OmitCardinalityMetrics: true, registryShardCount: 1}, 0)
	case 2:
		root = newRootScope(ScopeOptions{testScope: true, registryShardCount: 1}, 0)
	}
	sub := root.SubScope("s")
	sub.(io.Closer).Close()
	d := time.Duration(verifrt.Int64("d"))
	sub.Timer("fresh").Record(d)
	switch mode {
	case 0:
		verifrt.Assert("c10.after-close.one-delivery", len(rec.calls) == 1 && rec.calls[0].kind == "timer" && rec.calls[0].i == int64(d) && rec.calls[0].name == "s.fresh")
	case 1:
		verifrt.Assert("c10.after-close.one-delivery/cached", len(crec.calls) == 1 && crec.calls[0].kind == "timer" && crec.calls[0].i == int64(d))
	case 2:
		n := 0
		for _, e := range root.Snapshot().Timers() {
			if e.Name() == "s.fresh" {
				n += len(e.Values())
			}
		}
		verifrt.Assert("c10.after-close.kept-for-the-snapshot", n == 1)
	}
	verifrt.Reach("c10.after-close.end")
}

// VerifC10LongHistory: exactly-once over a long history.  A timer of a reporter-less scope is
// recorded N times with distinct values, N a power of two up to 2^17 (the sizes at which
// growth, batching or capping logic typically changes behaviour), then once more with a
// symbolic value: the snapshot holds all N+1 values in order.  The history is concrete (the
// engine has no symbolic-length slices); only the last value is symbolic.
func VerifC10LongHistory() {
	n := 1 << uint([]int{4, 10, 12, 16, 17}[verifrt.Choose("log2-records", 5)])
	ts := NewTestScope("", nil)
	tm := ts.Timer("t")
	for i := 0; i < n; i++ {
		tm.Record(time.Duration(i))
	}
	d := time.Duration(verifrt.Int64("last"))
	tm.Record(d)
	e, ok := ts.Snapshot().Timers()["t+"]
	verifrt.Assert("c10.long-history.entry", ok)
	if ok {
		vals := e.Values()
		verifrt.Assert("c10.long-history.every-value-delivered-exactly-once", len(vals) == n+1)
		if len(vals) == n+1 {
			verifrt.Assert("c10.long-history.values-in-order",
				verifrt.And(vals[0] == 0, verifrt.And(vals[n/2] == time.Duration(n/2), verifrt.And(vals[n-1] == time.Duration(n-1), vals[n] == d))))
		}
	}
	verifrt.Reach("c10.long-history.end")
}
