//go:build verif

package tally

import (
	"github.com/uber-go/tally/v4/internal/verifrt"
)

func refTagsEqual(a, b []kv) bool {
	if len(a) != len(b) {
		return false
	}
	same := true
	for _, x := range a {
		found := false
		for _, y := range b {
			found = verifrt.Or(found, verifrt.And(verifrt.EqStr(x.k, y.k), verifrt.EqStr(x.v, y.v)))
		}
		same = verifrt.And(same, found)
	}
	return same
}

func c05Scopes(cfg deriveCfg) {
	prefix := strChoice("prefix", cfg.maxStr)
	rec := &vReporter{}
	root := newRootScope(ScopeOptions{Prefix: prefix, Reporter: rec, OmitCardinalityMetrics: true,
		registryShardCount: cfg.shards}, 0)
	ref0 := refScope{prefix: prefix}
	var maps []map[string]string
	var copies [][]kv
	sa, ra := derive("a", root, ref0, ".", cfg, &maps, &copies)
	sb, rb := derive("b", root, ref0, ".", cfg, &maps, &copies)
	// the caller reuses its tag maps afterwards: a scope's identity and tags were fixed when it
	// was derived
	for _, m := range maps {
		for k := range m {
			m[k] = "reused"
		}
		m["added-later"] = "x"
	}
	ea, eb := ra.effective(), rb.effective()
	delim := verifrt.Or(hasDelim(ra.prefix), hasDelim(rb.prefix))
	for _, e := range append(append([]kv{}, ra.tags...), rb.tags...) {
		delim = verifrt.Or(delim, verifrt.Or(hasDelim(e.k), hasDelim(e.v)))
	}
	verifrt.Class("a-string-contains-a-key-delimiter(,=+)", delim)
	sameID := verifrt.And(verifrt.EqStr(ra.prefix, rb.prefix), refTagsEqual(ea, eb))
	samePtr := sa.(*scope) == sb.(*scope)
	if samePtr {
		verifrt.Assert("c05.different-identities-never-share-a-scope", sameID)
	} else {
		verifrt.Assert("c05.equal-identities-share-one-scope", verifrt.Not(sameID))
	}
	// metrics: same kind and name on the same scope -> same object; recorded values
	// are delivered under the scope's own name and tags only
	name := strChoice("metric", cfg.maxStr)
	ca, cb := sa.Counter(name), sb.Counter(name)
	verifrt.Assert("c05.same-metric-twice", sa.Counter(name) == ca)
	// the same holds for every kind - for histograms whatever buckets the later request names
	// (the buckets of an existing histogram are those it was first created with)
	switch verifrt.Choose("twice-kind", 3) {
	case 0:
		verifrt.Assert("c05.same-gauge-twice", sa.Gauge(name) == sa.Gauge(name))
	case 1:
		verifrt.Assert("c05.same-timer-twice", sa.Timer(name) == sa.Timer(name))
	case 2:
		h1 := sa.Histogram(name, ValueBuckets{1, 2})
		verifrt.Assert("c05.same-histogram-twice", verifrt.And(h1 == sa.Histogram(name, ValueBuckets{1, 2}),
			verifrt.And(h1 == sa.Histogram(name, ValueBuckets{5}), h1 == sa.Histogram(name, nil))))
	}
	if samePtr {
		verifrt.Assert("c05.shared-scope-shares-metric", ca == cb)
	} else {
		verifrt.Assert("c05.distinct-scopes-distinct-metrics", ca != cb)
	}
	va, vb := verifrt.Int64("inc.a"), verifrt.Int64("inc.b")
	verifrt.Assume(verifrt.And(va != 0, verifrt.And(vb != 0, verifrt.And(va+vb != 0, va != vb))))
	ca.Inc(va)
	cb.Inc(vb)
	root.reportRegistry()
	wantA, wantB := ra.fq(".", name), rb.fq(".", name)
	if samePtr {
		verifrt.Assert("c05.one-delivery-for-shared-scope", len(rec.calls) == 1)
		if len(rec.calls) == 1 {
			verifrt.Assert("c05.shared-sum", rec.calls[0].i == va+vb)
		}
	} else {
		verifrt.Assert("c05.two-deliveries", len(rec.calls) == 2)
		for _, c := range rec.calls {
			isA := verifrt.And(verifrt.EqStr(c.name, wantA), c.i == va)
			isB := verifrt.And(verifrt.EqStr(c.name, wantB), c.i == vb)
			verifrt.Assert("c05.value-delivered-under-own-name", verifrt.Or(isA, isB))
			if c.i == va { // forks
				tagsMatch("c05.a", c.tags, ea)
			} else {
				tagsMatch("c05.b", c.tags, eb)
			}
		}
	}
	verifrt.Reach("c05.scopes.end")
}

func VerifC05Scopes()        { c05Scopes(deriveCfg{depth: 2, maxStr: 1, shards: 1}) }
func VerifC05ScopesShards2() { c05Scopes(deriveCfg{depth: 2, maxStr: 1, shards: 2}) }
func VerifC05ScopesShards3() { c05Scopes(deriveCfg{depth: 2, maxStr: 1, shards: 3}) }
func VerifC05ScopesTwoTags() { c05Scopes(deriveCfg{depth: 2, maxStr: 1, shards: 1, twoTagMap: true}) }

// VerifC05TaggedRegroup: Tagged is idempotent and independent of order and grouping.
func VerifC05TaggedRegroup()        { c05Regroup(1) }
func VerifC05TaggedRegroupShards2() { c05Regroup(2) }

func c05Regroup(shards uint) {
	rec := &vReporter{}
	rk, rv := strChoice("rk", 1), strChoice("rv", 1)
	rootTags := map[string]string{}
	if verifrt.Choose("root.tagged", 2) == 1 {
		rootTags[rk] = rv
	}
	root := newRootScope(ScopeOptions{Reporter: rec, Tags: rootTags, OmitCardinalityMetrics: true, registryShardCount: shards}, 0)
	// re-tagging the root with nothing / with its own tags is the root itself
	verifrt.Assert("c05.root-tagged-nil-is-root", root.Tagged(nil).(*scope) == root)
	verifrt.Assert("c05.root-tagged-empty-is-root", root.Tagged(map[string]string{}).(*scope) == root)
	own := map[string]string{}
	for k, v := range rootTags {
		own[k] = v
	}
	verifrt.Assert("c05.root-tagged-own-tags-is-root", root.Tagged(own).(*scope) == root)
	verifrt.Assert("c05.root-metric-shared-with-noop-retag", root.Counter("c") == root.Tagged(nil).Counter("c"))
	k1, v1 := strChoice("k1", 1), strChoice("v1", 1)
	k2, v2 := strChoice("k2", 1), strChoice("v2", 1)
	verifrt.Assume(verifrt.Not(verifrt.EqStr(k1, k2)))
	verifrt.Class("a-string-contains-a-key-delimiter(,=+)", verifrt.Or(verifrt.Or(verifrt.Or(hasDelim(k1), hasDelim(v1)), verifrt.Or(hasDelim(k2), hasDelim(v2))), verifrt.Or(hasDelim(rk), hasDelim(rv))))
	a := root.Tagged(map[string]string{k1: v1}).Tagged(map[string]string{k2: v2})
	b := root.Tagged(map[string]string{k2: v2}).Tagged(map[string]string{k1: v1})
	c := root.Tagged(map[string]string{k1: v1, k2: v2})
	d := a.Tagged(map[string]string{k1: v1})
	e := a.Tagged(nil)
	f := a.Tagged(map[string]string{})
	verifrt.Assert("c05.tagged-order-independent", a.(*scope) == b.(*scope))
	verifrt.Assert("c05.tagged-grouping-independent", a.(*scope) == c.(*scope))
	verifrt.Assert("c05.tagged-idempotent", a.(*scope) == d.(*scope))
	verifrt.Assert("c05.tagged-nil-is-identity", a.(*scope) == e.(*scope) && a.(*scope) == f.(*scope))
	verifrt.Assert("c05.subscope-same-twice", root.SubScope("x").(*scope) == root.SubScope("x").(*scope))
	verifrt.Reach("c05.regroup.end")
}
