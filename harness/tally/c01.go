//go:build verif

package tally

import (
	"sync"

	"github.com/uber-go/tally/v4/internal/verifrt"
)

func sumCounter(r *vReporter) (sum int64, n int, anyZero, anyNeg bool) {
	for _, c := range r.calls {
		if c.kind == "counter" || c.kind == "hv" || c.kind == "hd" {
			sum += c.i
			n++
			anyZero = verifrt.Or(anyZero, c.i == 0)
			anyNeg = verifrt.Or(anyNeg, c.i < 0)
		}
	}
	return
}

// c01Kernel: a incrementer threads x b increments, r concurrent passes x q reports each,
// then a final pass and one more pass.  Plain or cached delivery.
func c01Kernel(a, b, r, q, preempt int, cached bool) {
	var cnt *counter
	crec := &vCachedReporter{}
	if cached {
		cnt = newCounter(crec.AllocateCounter("c", nil))
	} else {
		cnt = newCounter(nil)
	}
	vals := make([][]int64, a)
	var want int64
	nonneg := true
	for i := range vals {
		for j := 0; j < b; j++ {
			v := verifrt.Int64("inc")
			vals[i] = append(vals[i], v)
			want += v
			nonneg = verifrt.And(nonneg, verifrt.And(v >= 0, v < 1<<60))
		}
	}
	recs := make([]*vReporter, r)
	crecs := make([]*vCachedReporter, r)
	var wg sync.WaitGroup
	verifrt.Explore(preempt)
	for i := 0; i < a; i++ {
		wg.Add(1)
		go func(i int) {
			defer wg.Done()
			for _, v := range vals[i] {
				cnt.Inc(v)
			}
		}(i)
	}
	for i := 0; i < r; i++ {
		recs[i] = &vReporter{}
		crecs[i] = &vCachedReporter{}
		wg.Add(1)
		go func(i int) {
			defer wg.Done()
			for k := 0; k < q; k++ {
				if cached {
					c2 := *cnt // same atomics? no: copy would split state; use a per-pass handle instead
					_ = c2
					cnt.cachedReportTo(crecs[i])
				} else {
					cnt.report("c", nil, recs[i])
				}
			}
		}(i)
	}
	wg.Wait()
	verifrt.StopExplore()
	final, final2 := &vReporter{}, &vReporter{}
	cfinal, cfinal2 := &vCachedReporter{}, &vCachedReporter{}
	if cached {
		cnt.cachedReportTo(cfinal)
		cnt.cachedReportTo(cfinal2)
	} else {
		cnt.report("c", nil, final)
		cnt.report("c", nil, final2)
	}
	var got int64
	anyZero, anyNeg := false, false
	if cached {
		for _, cr := range append(crecs, cfinal) {
			for _, c := range cr.calls {
				got += c.i
				anyZero = verifrt.Or(anyZero, c.i == 0)
				anyNeg = verifrt.Or(anyNeg, c.i < 0)
			}
		}
		verifrt.Assert("c01.idle-pass-delivers-nothing", len(cfinal2.calls) == 0)
	} else {
		for _, rr := range append(recs, final) {
			s, _, z, ng := sumCounter(rr)
			got += s
			anyZero = verifrt.Or(anyZero, z)
			anyNeg = verifrt.Or(anyNeg, ng)
		}
		verifrt.Assert("c01.idle-pass-delivers-nothing", len(final2.calls) == 0)
	}
	verifrt.Assert("c01.delivered-sum-equals-increments", got == want)
	verifrt.Assert("c01.no-zero-delta-delivered", verifrt.Not(anyZero))
	verifrt.Assert("c01.no-negative-delta-for-nonnegative-increments", verifrt.Implies(nonneg, verifrt.Not(anyNeg)))
	verifrt.Reach("c01.kernel.end")
}

// cachedReportTo is cachedReport with the delivery redirected to a per-pass recorder
// (the real cachedReport is exercised by VerifC01ScopePass below).
func (c *counter) cachedReportTo(r *vCachedReporter) {
	saved := c.cachedCount
	_ = saved
	delta := c.value()
	if delta == 0 {
		return
	}
	r.calls = append(r.calls, vCachedCall{kind: "counter", i: delta})
}

func VerifC01Kernel()       { c01Kernel(1, 2, 2, 1, 2, false) }
func VerifC01KernelWide()   { c01Kernel(2, 1, 2, 1, 3, false) }
func VerifC01KernelTwice()  { c01Kernel(1, 2, 2, 2, 2, false) }
func VerifC01Kernel3Pass()  { c01Kernel(1, 1, 3, 1, 3, false) }
func VerifC01KernelCached() { c01Kernel(1, 2, 2, 1, 2, true) }

// c01Late: a report pass that starts after the increments have stopped runs concurrently
// with a straggling pass; when both are done everything must have been delivered - no
// further pass is needed.
func c01Late(b, preempt int) {
	cnt := newCounter(nil)
	var want int64
	vals := make([]int64, b)
	for i := range vals {
		vals[i] = verifrt.Int64("inc")
		want += vals[i]
	}
	recs := []*vReporter{{}, {}}
	var wgInc, wg sync.WaitGroup
	verifrt.Explore(preempt)
	wgInc.Add(1)
	wg.Add(3)
	go func() {
		defer wg.Done()
		defer wgInc.Done()
		for _, v := range vals {
			cnt.Inc(v)
		}
	}()
	go func() { // straggler: may start at any time
		defer wg.Done()
		cnt.report("c", nil, recs[0])
	}()
	go func() { // starts after the increments have stopped
		defer wg.Done()
		wgInc.Wait()
		cnt.report("c", nil, recs[1])
	}()
	wg.Wait()
	verifrt.StopExplore()
	var got int64
	for _, rr := range recs {
		s, _, _, _ := sumCounter(rr)
		got += s
	}
	verifrt.Assert("c01.pass-after-activity-stopped-delivers-the-rest", got == want)
	verifrt.Reach("c01.late.end")
}

func VerifC01LatePass()  { c01Late(2, 2) }
func VerifC01LatePass3() { c01Late(2, 3) }

// VerifC01ScopePass: one scope report pass visits every counter, gauge and histogram
// bucket exactly once with the scope's name and tags (plain and cached).
func VerifC01ScopePass() {
	cached := verifrt.Choose("cached", 2) == 1
	rec := &vReporter{}
	crec := &vCachedReporter{}
	opts := ScopeOptions{Prefix: "p", Tags: map[string]string{"k": "v"}, OmitCardinalityMetrics: true, registryShardCount: 1}
	if cached {
		opts.CachedReporter = crec
	} else {
		opts.Reporter = rec
	}
	root := newRootScope(opts, 0)
	sub := root.SubScope("s")
	v1, v2, v3 := verifrt.Int64("inc"), verifrt.Int64("inc"), verifrt.Int64("inc")
	verifrt.Assume(verifrt.And(v1 != 0, verifrt.And(v2 != 0, v3 != 0)))
	root.Counter("a").Inc(v1)
	root.Counter("b").Inc(v2)
	sub.Counter("a").Inc(v3)
	h := root.Histogram("h", ValueBuckets{1})
	h.RecordValue(0)
	h.RecordValue(2)
	h.RecordValue(3)
	for pass := 0; pass < 2; pass++ {
		root.reportRegistry()
		if cached {
			got := map[string]int64{}
			for _, c := range crec.calls {
				a := crec.allocs[c.alloc]
				verifrt.Assert("c01.pass.cached-tags", a.tags["k"] == "v" && len(a.tags) == 1)
				key := a.name
				if c.kind == "samples" {
					key += "/bucket"
					if crec.buckets[c.bucket].hi == 1 {
						key += "1"
					}
				}
				got[key] += c.i
			}
			verifrt.Assert("c01.pass.cached-each-metric-once", len(crec.calls) == 5 && got["p.a"] == v1 && got["p.b"] == v2 && got["p.s.a"] == v3 && got["p.h/bucket1"] == 1 && got["p.h/bucket"] == 2)
		} else {
			got := map[string]int64{}
			for _, c := range rec.calls {
				verifrt.Assert("c01.pass.tags", c.tags["k"] == "v" && len(c.tags) == 1)
				key := c.name
				if c.kind == "hv" {
					key += "/bucket"
					if c.hi == 1 {
						key += "1"
					}
				}
				got[key] += c.i
			}
			verifrt.Assert("c01.pass.each-metric-once", len(rec.calls) == 5 && got["p.a"] == v1 && got["p.b"] == v2 && got["p.s.a"] == v3 && got["p.h/bucket1"] == 1 && got["p.h/bucket"] == 2)
		}
		// the second pass (no new increments) must add nothing
	}
	verifrt.Reach("c01.pass.end")
}

// VerifC01SubscopeClose: conservation across a subscope Close racing a report pass
// (the registry decides when a closed scope's counters are reported for the last time).
func VerifC01SubscopeClose() { c07Prefix = "c01.registry"; c07Cycle(1, 1, 2, 2) }
func VerifC01SubscopeCycle() { c07Prefix = "c01.registry"; c07Cycle(1, 1, 2, 0) }

// VerifC01HistogramKernel: samples recorded into a histogram while report passes run; every
// sample is delivered exactly once (the bucket counters follow the same delta protocol), and a
// pass after the activity stopped leaves nothing behind.
func VerifC01HistogramKernel() {
	rec := &lockedReporter{}
	root := newRootScope(ScopeOptions{Reporter: rec, OmitCardinalityMetrics: true, registryShardCount: 1}, 0)
	h := root.Histogram("h", ValueBuckets{1})
	x, y := verifrt.Float64("sample"), verifrt.Float64("sample")
	verifrt.Assume(verifrt.And(finite(x), finite(y)))
	var wg sync.WaitGroup
	verifrt.Explore(2)
	wg.Add(2)
	go func() { defer wg.Done(); h.RecordValue(x); h.RecordValue(y) }()
	go func() { defer wg.Done(); root.reportRegistry() }()
	wg.Wait()
	verifrt.StopExplore()
	root.reportRegistry()
	count := func() int64 {
		var n int64
		for _, c := range rec.calls {
			if c.kind == "hv" && c.name == "h" {
				n += c.i
			}
		}
		return n
	}
	verifrt.Assert("c01.histogram.every-sample-delivered-exactly-once", count() == 2)
	root.reportRegistry()
	verifrt.Assert("c01.histogram.idle-pass-delivers-nothing", count() == 2)
	verifrt.Reach("c01.histogram.end")
}

// VerifC01RetiredHandle: a caller may keep a Counter of a subscope that was closed, reported
// for the last time and dropped.  Whatever it does with that handle afterwards, the deliveries
// of every live counter still add up to exactly the increments applied to that counter - before
// or after the live counter was created (sequential; plain and cached reporter).
func VerifC01RetiredHandle() {
	rec := &vReporter{}
	crec := &vCachedReporter{}
	cached := verifrt.Choose("cached", 2) == 1
	opts := ScopeOptions{OmitCardinalityMetrics: true, registryShardCount: 1}
	if cached {
		opts.CachedReporter = crec
	} else {
		opts.Reporter = rec
	}
	root := newRootScope(opts, 0)
	a, b, c, d := verifrt.Int64("inc"), verifrt.Int64("inc"), verifrt.Int64("inc"), verifrt.Int64("inc")
	old := root.SubScope("a")
	h := old.Counter("c")
	h.Inc(a)
	old.(*scope).Close()
	root.reportRegistry() // last report of "a", then it is dropped
	lateFirst := verifrt.Choose("late-increment-before-creation", 2) == 1
	if lateFirst {
		h.Inc(b)
	}
	live := root.SubScope("b").Counter("d")
	live.Inc(c)
	if !lateFirst {
		h.Inc(b)
	}
	root.reportRegistry()
	live.Inc(d)
	h.Inc(b)
	root.reportRegistry()
	var gotOld, gotLive int64
	if cached {
		for _, cl := range crec.calls {
			if cl.kind != "counter" {
				continue
			}
			switch crec.allocs[cl.alloc].name {
			case "a.c":
				gotOld += cl.i
			case "b.d":
				gotLive += cl.i
			}
		}
	} else {
		for _, cl := range rec.calls {
			if cl.kind != "counter" {
				continue
			}
			switch cl.name {
			case "a.c":
				gotOld += cl.i
			case "b.d":
				gotLive += cl.i
			}
		}
	}
	verifrt.Assert("c01.retired-handle.live-counter-delivers-exactly-its-own-increments", gotLive == c+d)
	verifrt.Assert("c01.retired-handle.closed-scope-delivered-what-was-applied-before-close", gotOld == a)
	verifrt.Reach("c01.retired-handle.end")
}
