//go:build verif

package tally

import (
	"sync"
	"time"

	"github.com/uber-go/tally/v4/internal/verifrt"
)

// reference model of a derivation
type refScope struct {
	prefix string
	tags   []kv // overlay order; later wins
}

func (r refScope) fq(sep, name string) string {
	if len(r.prefix) == 0 {
		return name
	}
	return r.prefix + sep + name
}

// effective returns the overlay result as a list with distinct keys (forks on key equality).
func (r refScope) effective() []kv {
	var out []kv
	for i, e := range r.tags {
		overridden := false
		for j := i + 1; j < len(r.tags); j++ {
			if r.tags[j].k == e.k {
				overridden = true
			}
		}
		if !overridden {
			out = append(out, e)
		}
	}
	return out
}

func tagsMatch(label string, got map[string]string, want []kv) {
	verifrt.Assert(label+".tag-count", len(got) == len(want))
	for _, e := range want {
		v, ok := got[e.k]
		verifrt.Assert(label+".tag-present", ok)
		if ok {
			verifrt.Assert(label+".tag-value(later-wins)", len(v) == len(e.v) && v == e.v)
		}
	}
}

type deriveCfg struct {
	depth     int
	maxStr    int
	sanitize  bool
	shards    uint
	cached    bool
	twoTagMap bool
	fixedRoot bool // concrete empty prefix and default separator
}

// strChoice: a symbolic string of 0..max bytes; max < 0 means exactly -max bytes.
func strChoice(tag string, max int) string {
	if max < 0 {
		// sanitized variants: ASCII only (multi-byte and invalid encodings are C06's subject)
		s := verifrt.String(tag, -max)
		for i := 0; i < len(s); i++ {
			verifrt.Assume(s[i] < 0x80)
		}
		return s
	}
	return verifrt.String(tag, verifrt.Choose(tag+".len", max+1))
}

// derive applies a symbolic derivation program to root and returns the scope and its reference.
func derive(tag string, root *scope, ref refScope, sep string, cfg deriveCfg, callerMaps *[]map[string]string, callerCopies *[][]kv) (Scope, refScope) {
	var cur Scope = root
	z := root.sanitizer
	for step := 0; step < cfg.depth; step++ {
		switch verifrt.Choose(tag+".op", 3) {
		case 0: // stop
			return cur, ref
		case 1:
			name := strChoice(tag+".sub", cfg.maxStr)
			cur = cur.SubScope(name)
			ref = refScope{prefix: ref.fq(sep, z.Name(name)), tags: ref.tags}
		case 2:
			n := 1
			if cfg.twoTagMap {
				n = 1 + verifrt.Choose(tag+".ntags", 2)
			}
			m := make(map[string]string, n)
			var es []kv
			for i := 0; i < n; i++ {
				k, v := strChoice(tag+".tk", cfg.maxStr), strChoice(tag+".tv", cfg.maxStr)
				if i == 1 {
					verifrt.Assume(verifrt.Not(verifrt.EqStr(k, es[0].k)))
				}
				m[k] = v
				es = append(es, kv{k, v})
			}
			cur = cur.Tagged(m)
			*callerMaps = append(*callerMaps, m)
			*callerCopies = append(*callerCopies, es)
			nt := append([]kv{}, ref.tags...)
			for _, e := range es {
				nt = append(nt, kv{z.Key(e.k), z.Value(e.v)})
			}
			ref = refScope{prefix: ref.prefix, tags: nt}
		}
	}
	return cur, ref
}

func c04Run(cfg deriveCfg) {
	prefix := ""
	if !cfg.fixedRoot {
		prefix = strChoice("prefix", cfg.maxStr)
	}
	sepIn := ""
	if !cfg.fixedRoot && verifrt.Choose("sep.custom", 2) == 1 {
		sepIn = strChoice("sep", -1)
		if !cfg.sanitize {
			sepIn = verifrt.String("sep", 1)
		}
	}
	// the root has no tag or one tag
	var rk, rv string
	rootTags := map[string]string{}
	hasRootTag := verifrt.Choose("root.tagged", 2) == 1
	if hasRootTag {
		rk, rv = strChoice("root.tk", cfg.maxStr), strChoice("root.tv", cfg.maxStr)
		rootTags[rk] = rv
	}
	rec := &vReporter{}
	opts := ScopeOptions{Prefix: prefix, Tags: rootTags, Reporter: rec, Separator: sepIn,
		OmitCardinalityMetrics: true, registryShardCount: cfg.shards}
	if cfg.sanitize {
		// one range per kind keeps the per-byte case split small; the sanitizer itself is C06
		opts.SanitizeOptions = &SanitizeOptions{
			NameCharacters:       ValidCharacters{Ranges: []SanitizeRange{{'a', 'z'}}},
			KeyCharacters:        ValidCharacters{Ranges: []SanitizeRange{{'A', 'Z'}}},
			ValueCharacters:      ValidCharacters{Ranges: []SanitizeRange{{'0', '9'}}},
			ReplacementCharacter: DefaultReplacementCharacter,
		}
	}
	root := newRootScope(opts, 0)
	z := root.sanitizer
	sep := sepIn
	if sep == "" {
		sep = DefaultSeparator
	}
	sep = z.Name(sep)
	ref := refScope{prefix: z.Name(prefix)}
	var maps []map[string]string
	var copies [][]kv
	maps = append(maps, rootTags)
	if hasRootTag {
		ref.tags = []kv{{z.Key(rk), z.Value(rv)}}
		copies = append(copies, []kv{{rk, rv}})
	} else {
		copies = append(copies, nil)
	}
	s, ref := derive("p", root, ref, sep, cfg, &maps, &copies)
	delim := verifrt.Or(hasDelim(prefix), verifrt.Or(hasDelim(sep), hasDelim(ref.prefix)))
	for _, e := range ref.tags {
		delim = verifrt.Or(delim, verifrt.Or(hasDelim(e.k), hasDelim(e.v)))
	}
	verifrt.Class("a-string-contains-a-key-delimiter(,=+)", delim)

	name := strChoice("metric", cfg.maxStr)
	wantName := ref.fq(sep, z.Name(name))
	kind := 0
	if !cfg.sanitize {
		kind = verifrt.Choose("kind", 4)
	}
	switch kind {
	case 0:
		s.Counter(name).Inc(1)
	case 1:
		s.Gauge(name).Update(1)
	case 2:
		s.Timer(name).Record(time.Second)
	case 3:
		s.Histogram(name, ValueBuckets{1}).RecordValue(0)
	}
	// the caller mutates every map it handed in
	for _, m := range maps {
		for k := range m {
			m[k] = "mutated-by-caller"
		}
		m["added-by-caller"] = "x"
	}
	root.reportRegistry()
	verifrt.Assert("c04.exactly-one-delivery", len(rec.calls) == 1)
	want := ref.effective()
	for _, c := range rec.calls {
		verifrt.EmitS("name", c.name)
		verifrt.Assert("c04.name-follows-derivation", len(c.name) == len(wantName) && c.name == wantName)
		tagsMatch("c04", c.tags, want)
	}
	// second delivery of the same scope: tags unchanged over its lifetime
	if kind == 0 {
		s.Counter(name).Inc(2)
		root.reportRegistry()
		verifrt.Assert("c04.second-delivery", len(rec.calls) == 2)
		if len(rec.calls) == 2 {
			tagsMatch("c04.lifetime", rec.calls[1].tags, want)
		}
	}
	// the library never mutated the caller's maps (apart from what the caller did itself)
	for i, m := range maps {
		verifrt.Assert("c04.caller-map-size", len(m) == len(copies[i])+1)
	}
	verifrt.Reach("c04.end")
}

func VerifC04Plain()     { c04Run(deriveCfg{depth: 2, maxStr: 1, shards: 1}) }
func VerifC04Sanitized() { c04Run(deriveCfg{depth: 1, maxStr: -1, shards: 1, sanitize: true}) }

// VerifC04SanitizedOrder: the sanitized variant under every iteration order of the (small) tag maps
// - a re-tag whose raw key differs from, but sanitizes to, a key of the parent must still win.
func VerifC04SanitizedOrder() {
	verifrt.PermuteMaps(2)
	c04Run(deriveCfg{depth: 1, maxStr: -1, shards: 1, sanitize: true})
}
func VerifC04Sanitized2() { c04Run(deriveCfg{depth: 2, maxStr: -1, shards: 1, sanitize: true}) }
func VerifC04Shards2()    { c04Run(deriveCfg{depth: 2, maxStr: 1, shards: 2}) }
func VerifC04TwoTags() {
	c04Run(deriveCfg{depth: 2, maxStr: -1, shards: 1, twoTagMap: true, fixedRoot: true})
}
func VerifC04Deep() { c04Run(deriveCfg{depth: 3, maxStr: 1, shards: 1, twoTagMap: true}) }
func VerifC04Long() { c04Run(deriveCfg{depth: 2, maxStr: 2, shards: 1}) }

// VerifC04SiblingLifetime: the name and tags delivered for a scope are those of its derivation
// for its whole life, whatever happens to scopes derived from it.  A tagged scope t, an untagged
// child c = t.SubScope(x) (which may share t's tag storage), a tagged child d; c and d are used,
// closed and retired by report passes while t and the root go on reporting.
func VerifC04SiblingLifetime() {
	rec := &vReporter{}
	rk, rv := verifrt.String("root.tk", 1), verifrt.String("root.tv", 1)
	k, v := verifrt.String("tk", 1), verifrt.String("tv", 1)
	dk, dv := verifrt.String("dk", 1), verifrt.String("dv", 1)
	for _, s := range []string{rk, rv, k, v, dk, dv} {
		verifrt.Assume(verifrt.Not(hasDelim(s))) // the key-delimiter class is the recorded C05 finding
	}
	verifrt.Assume(verifrt.And(k != rk, verifrt.And(dk != rk, dk != k)))
	root := newRootScope(ScopeOptions{Tags: map[string]string{rk: rv}, Reporter: rec,
		OmitCardinalityMetrics: true, registryShardCount: 1}, 0)
	t := root.Tagged(map[string]string{k: v})
	c := t.SubScope("x")
	d := t.Tagged(map[string]string{dk: dv})
	use := func() {
		root.Counter("r").Inc(1)
		t.Counter("m").Inc(1)
	}
	check := func(label string) {
		for _, cl := range rec.calls {
			switch cl.name {
			case "r":
				verifrt.Assert(label+".root-tags", len(cl.tags) == 1 && cl.tags[rk] == rv)
			case "m":
				verifrt.Assert(label+".tagged-scope-tags", len(cl.tags) == 2 && cl.tags[rk] == rv && cl.tags[k] == v)
			case "x.n":
				verifrt.Assert(label+".subscope-tags", len(cl.tags) == 2 && cl.tags[rk] == rv && cl.tags[k] == v)
			case "dn":
				verifrt.Assert(label+".tagged-child-tags", len(cl.tags) == 3 && cl.tags[rk] == rv && cl.tags[k] == v && cl.tags[dk] == dv)
			default:
				verifrt.Assert(label+".only-derived-names", false)
			}
		}
	}
	c.Counter("n").Inc(1)
	d.Counter("dn").Inc(1)
	use()
	root.reportRegistry()
	check("c04.lifetime.before-close")
	if verifrt.Choose("close.first", 2) == 0 {
		c.(*scope).Close()
	} else {
		d.(*scope).Close()
	}
	use()
	root.reportRegistry() // delivers the closed scope's last values and retires it
	use()
	root.reportRegistry()
	c.(*scope).Close()
	d.(*scope).Close()
	root.reportRegistry()
	use()
	root.reportRegistry()
	check("c04.lifetime.after-close")
	nr, nm := 0, 0
	for _, cl := range rec.calls {
		if cl.name == "r" {
			nr++
		}
		if cl.name == "m" {
			nm++
		}
	}
	verifrt.Assert("c04.lifetime.live-scopes-kept-reporting", nr == 4 && nm == 4)
	verifrt.Reach("c04.lifetime.end")
}

// VerifC04SnapshotIndependence: what a caller does with the maps a Snapshot hands out must not
// reach the scopes: the caller rewrites and empties the tag maps of every snapshot entry, then
// goes on recording and deriving; a later snapshot shows every scope under the name and tags of
// its derivation (root, untagged subscope, tagged child, a child derived after the tampering).
func VerifC04SnapshotIndependence() {
	rk, rv := verifrt.String("root.tk", 1), verifrt.String("root.tv", 1)
	k, v := verifrt.String("tk", 1), verifrt.String("tv", 1)
	for _, s := range []string{rk, rv, k, v} {
		verifrt.Assume(verifrt.Not(hasDelim(s))) // the key-delimiter class is the recorded C05 finding
	}
	verifrt.Assume(k != rk)
	ts := NewTestScope("p", map[string]string{rk: rv})
	sub := ts.SubScope("x")
	tg := ts.Tagged(map[string]string{k: v})
	ts.Counter("r").Inc(1)
	sub.Counter("n").Inc(1)
	tg.Counter("m").Inc(1)
	first := ts.Snapshot()
	for _, e := range first.Counters() {
		tags := e.Tags()
		for tk := range tags {
			tags[tk] = "tampered"
		}
		tags["extra"] = "tampered"
		delete(tags, rk)
	}
	ts.Counter("r").Inc(1)
	sub.Counter("n").Inc(1)
	tg.Counter("m").Inc(1)
	late := ts.Tagged(map[string]string{k: v}).SubScope("y")
	late.Counter("l").Inc(1)
	snap := ts.Snapshot()
	rootTags := map[string]string{rk: rv}
	both := map[string]string{rk: rv, k: v}
	check := func(label, name string, tags map[string]string, want int64) {
		e, ok := snap.Counters()[KeyForPrefixedStringMap(name, tags)]
		verifrt.Assert("c04.snapshot-independence."+label+".entry-under-its-derivation", ok)
		if ok {
			verifrt.Assert("c04.snapshot-independence."+label+".value", e.Value() == want)
			okTags := len(e.Tags()) == len(tags)
			for tk, tv := range tags {
				okTags = verifrt.And(okTags, e.Tags()[tk] == tv)
			}
			verifrt.Assert("c04.snapshot-independence."+label+".tags", okTags)
		}
	}
	check("root", "p.r", rootTags, 2)
	check("subscope", "p.x.n", rootTags, 2)
	check("tagged", "p.m", both, 2)
	check("derived-later", "p.y.l", both, 1)
	verifrt.Assert("c04.snapshot-independence.four-counters", len(snap.Counters()) == 4)
	verifrt.Reach("c04.snapshot-independence.end")
}

// VerifC04ConcurrentCreation: two goroutines create differently named metrics on one prefixed
// scope at the same time (cached reporter: the name is fixed at allocation); each allocation
// carries the fully qualified name of its own metric.  2 preemptions, race check.
func VerifC04ConcurrentCreation() {
	crec := &vCachedReporter{}
	root := newRootScope(ScopeOptions{Prefix: "p", CachedReporter: crec, OmitCardinalityMetrics: true, registryShardCount: 1}, 0)
	// (names short enough to fit whatever spare capacity a precomputed "prefix." buffer has)
	s := root.SubScope("sub")
	var wg sync.WaitGroup
	verifrt.Explore(2)
	wg.Add(2)
	go func() { defer wg.Done(); s.Counter("c1").Inc(1) }()
	go func() { defer wg.Done(); s.Gauge("g1").Update(1); s.SubScope("deeper").Timer("t1").Record(1) }()
	wg.Wait()
	verifrt.StopExplore()
	seen := map[string]string{}
	for _, a := range crec.allocs {
		seen[a.kind] = a.name
	}
	verifrt.Assert("c04.concurrent-creation.counter-name", seen["counter"] == "p.sub.c1")
	verifrt.Assert("c04.concurrent-creation.gauge-name", seen["gauge"] == "p.sub.g1")
	verifrt.Assert("c04.concurrent-creation.timer-name", seen["timer"] == "p.sub.deeper.t1")
	verifrt.Assert("c04.concurrent-creation.three-allocations", len(crec.allocs) == 3)
	verifrt.Reach("c04.concurrent-creation.end")
}
