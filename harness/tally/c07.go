//go:build verif

package tally

import (
	"io"
	"sync"
	"time"

	"github.com/uber-go/tally/v4/internal/verifrt"
)

func sumNamed(rec *vReporter, name string) int64 {
	var s int64
	for _, c := range rec.calls {
		if c.kind == "counter" && c.name == name {
			s += c.i
		}
	}
	return s
}

func sumNamedCached(rec *vCachedReporter, name string) int64 {
	var s int64
	for _, c := range rec.calls {
		if c.kind == "counter" && rec.allocs[c.alloc].name == name {
			s += c.i
		}
	}
	return s
}

// lockedReporter: deliveries from concurrent passes are serialised by a mutex
// (a reporter must be safe for concurrent use; this one is).
type lockedReporter struct {
	mu sync.Mutex
	vReporter
}

func (r *lockedReporter) ReportCounter(name string, tags map[string]string, value int64) {
	r.mu.Lock()
	r.vReporter.ReportCounter(name, tags, value)
	r.mu.Unlock()
}
func (r *lockedReporter) ReportGauge(name string, tags map[string]string, value float64) {
	r.mu.Lock()
	r.vReporter.ReportGauge(name, tags, value)
	r.mu.Unlock()
}
func (r *lockedReporter) ReportTimer(name string, tags map[string]string, d time.Duration) {
	r.mu.Lock()
	r.vReporter.ReportTimer(name, tags, d)
	r.mu.Unlock()
}
func (r *lockedReporter) ReportHistogramValueSamples(name string, tags map[string]string, b Buckets, lo, hi float64, n int64) {
	r.mu.Lock()
	r.vReporter.ReportHistogramValueSamples(name, tags, b, lo, hi, n)
	r.mu.Unlock()
}
func (r *lockedReporter) ReportHistogramDurationSamples(name string, tags map[string]string, b Buckets, lo, hi time.Duration, n int64) {
	r.mu.Lock()
	r.vReporter.ReportHistogramDurationSamples(name, tags, b, lo, hi, n)
	r.mu.Unlock()
}
func (r *lockedReporter) Flush() {
	r.mu.Lock()
	r.vReporter.Flush()
	r.mu.Unlock()
}

// c07Cycle: an application goroutine does {obtain subscope, record, Close, obtain again,
// record} while report passes run; a second identity is never closed.
var c07Prefix = "c07"

func c07Cycle(passes int, shards uint, preempt int, variant int) {
	rec := &lockedReporter{}
	root := newRootScope(ScopeOptions{Reporter: rec, OmitCardinalityMetrics: true, registryShardCount: shards}, 0)
	v1, v2, v3, v4 := verifrt.Int64("inc"), verifrt.Int64("inc"), verifrt.Int64("inc"), verifrt.Int64("inc")
	verifrt.Assume(verifrt.And(verifrt.And(v1 != 0, v2 != 0), verifrt.And(v3 != 0, v4 != 0)))
	other := root.SubScope("b")
	other.Counter("x").Inc(v3)
	var s2 Scope
	var wg sync.WaitGroup
	var pre Scope
	if variant == 2 {
		pre = root.SubScope("a") // obtained before the passes start
	}
	verifrt.Explore(preempt)
	wg.Add(1)
	go func() {
		defer wg.Done()
		s := pre
		if s == nil {
			s = root.SubScope("a")
		}
		c := s.Counter("x")
		c.Inc(v1)
		s.(io.Closer).Close()
		switch variant {
		case 0, 2:
			s2 = root.SubScope("a")
			s2.Counter("x").Inc(v2)
		case 1:
			// closing twice is harmless; children of a closed scope are inert
			s.(io.Closer).Close()
			child := s.SubScope("child")
			child.Counter("y").Inc(1)
			s2 = root.SubScope("a")
			s2.Counter("x").Inc(v2)
		}
	}()
	for p := 0; p < passes; p++ {
		wg.Add(1)
		go func() {
			defer wg.Done()
			root.reportRegistry()
		}()
	}
	wg.Wait()
	verifrt.StopExplore()
	root.reportRegistry()
	verifrt.Assert(c07Prefix+".recorded-before-close-and-on-reacquired-scope-delivered-exactly-once", sumNamed(&rec.vReporter, "a.x") == v1+v2)
	verifrt.Assert(c07Prefix+".other-scope-unaffected", sumNamed(&rec.vReporter, "b.x") == v3)
	verifrt.Assert(c07Prefix+".inert-child-delivers-nothing", sumNamed(&rec.vReporter, "a.child.y") == 0)
	// the re-acquired scope is still registered: a later increment is delivered
	s2.Counter("x").Inc(v4)
	root.reportRegistry()
	verifrt.Assert(c07Prefix+".reacquired-scope-stays-registered", sumNamed(&rec.vReporter, "a.x") == v1+v2+v4)
	verifrt.Assert(c07Prefix+".reacquire-returns-live-scope", root.SubScope("a").(*scope) == s2.(*scope))
	verifrt.Reach("c07.cycle.end")
}

func VerifC07Cycle()       { c07Cycle(1, 1, 2, 0) }
func VerifC07CycleTwice()  { c07Cycle(1, 1, 2, 1) }
func VerifC07PreObtained() { c07Cycle(1, 1, 2, 2) }
func VerifC07TwoPasses()   { c07Cycle(2, 1, 2, 0) }
func VerifC07Shards2()     { c07Cycle(1, 2, 2, 0) }
func VerifC07Preempt3()    { c07Cycle(1, 1, 3, 0) }

// VerifC07Sequential: the sequential contract (close, report, re-acquire) incl. cached reporter.
func VerifC07Sequential() {
	crec := &vCachedReporter{}
	root := newRootScope(ScopeOptions{CachedReporter: crec, OmitCardinalityMetrics: true, registryShardCount: 1}, 0)
	v1, v2 := verifrt.Int64("inc"), verifrt.Int64("inc")
	verifrt.Assume(verifrt.And(v1 != 0, v2 != 0))
	s := root.SubScope("a")
	s.Counter("x").Inc(v1)
	s.(io.Closer).Close()
	if verifrt.Choose("report-first", 2) == 1 {
		root.reportRegistry()
		verifrt.Assert("c07.seq.delivered-by-next-pass", sumNamedCached(crec, "a.x") == v1)
	}
	s2 := root.SubScope("a")
	verifrt.Assert("c07.seq.delivered-at-reacquire", sumNamedCached(crec, "a.x") == v1)
	verifrt.Assert("c07.seq.fresh-scope", s2.(*scope) != s.(*scope))
	s2.Counter("x").Inc(v2)
	root.reportRegistry()
	root.reportRegistry()
	verifrt.Assert("c07.seq.exactly-once", sumNamedCached(crec, "a.x") == v1+v2)
	verifrt.Reach("c07.seq.end")
}

// c07Alias: with a sanitizer two spellings of a tag value can name the same scope
// (the registry then holds it under two keys).  Histories over the two spellings:
// obtain via spelling 1, record, Close, obtain via spelling 2 (and again via 1),
// record; every value must be delivered exactly once and the scope obtained
// after the Close must be live and stay registered.
func c07Alias(concurrent bool) {
	rec := &lockedReporter{}
	opts := ScopeOptions{Reporter: rec, OmitCardinalityMetrics: true, registryShardCount: 1,
		SanitizeOptions: &SanitizeOptions{
			NameCharacters:       ValidCharacters{Ranges: []SanitizeRange{{'a', 'z'}}},
			KeyCharacters:        ValidCharacters{Ranges: []SanitizeRange{{'a', 'z'}}},
			ValueCharacters:      ValidCharacters{Ranges: []SanitizeRange{{'0', '9'}}},
			ReplacementCharacter: DefaultReplacementCharacter,
		}}
	root := newRootScope(opts, 0)
	sp1, sp2 := "a", "b" // both are rewritten to "_" by this sanitizer
	if !concurrent {
		sp1, sp2 = verifrt.String("spelling", 1), verifrt.String("spelling", 1)
	}
	// both spellings sanitize to the same value (the solver picks them, e.g. "-" and "_")
	verifrt.Assume(verifrt.EqStr(root.sanitizer.Value(sp1), root.sanitizer.Value(sp2)))
	v0, v1, v2, v3 := verifrt.Int64("inc"), verifrt.Int64("inc"), verifrt.Int64("inc"), verifrt.Int64("inc")
	verifrt.Assume(verifrt.And(verifrt.And(v0 != 0, v1 != 0), verifrt.And(v2 != 0, v3 != 0)))
	first := sp1
	second := sp2
	if concurrent || verifrt.Choose("first-obtain-both", 2) == 1 {
		// the scope is known under both keys before it is closed
		root.Tagged(map[string]string{"k": sp2})
	}
	s := root.Tagged(map[string]string{"k": first})
	s.Counter("x").Inc(v1)
	var s2 Scope
	preClosed := false
	app := func() {
		// recorded while a pass may be half-way through the aliases of this scope
		if !preClosed {
			s.Counter("x").Inc(v0)
		}
		s.(io.Closer).Close()
		reacquire := 2
		if !concurrent {
			reacquire = verifrt.Choose("reacquire", 3)
		}
		switch reacquire {
		case 0:
			s2 = root.Tagged(map[string]string{"k": second})
		case 1:
			s2 = root.Tagged(map[string]string{"k": first})
			verifrt.Assert("c07.alias.same-identity-same-scope", root.Tagged(map[string]string{"k": second}).(*scope) == s2.(*scope))
		case 2:
			s2 = root.Tagged(map[string]string{"k": second})
			verifrt.Assert("c07.alias.same-identity-same-scope", root.Tagged(map[string]string{"k": first}).(*scope) == s2.(*scope))
		}
		s2.Counter("x").Inc(v2)
	}
	if concurrent {
		var wg sync.WaitGroup
		verifrt.Explore(2)
		wg.Add(2)
		go func() { defer wg.Done(); app() }()
		go func() { defer wg.Done(); root.reportRegistry() }()
		wg.Wait()
		verifrt.StopExplore()
	} else {
		if verifrt.Choose("pass-before-reacquire", 2) == 1 {
			s.Counter("x").Inc(v0)
			s.(io.Closer).Close()
			root.reportRegistry()
			preClosed = true
		}
		app()
	}
	verifrt.Assert("c07.alias.scope-after-close-is-live", !s2.(*scope).closed.Load())
	if !concurrent && verifrt.Choose("second-cycle", 2) == 1 {
		// a second close / re-acquire cycle, this time through the other spelling (which may
		// still be an alias of the first, long closed scope)
		s2.(io.Closer).Close()
		s3 := root.Tagged(map[string]string{"k": first})
		verifrt.Assert("c07.alias.second-cycle.scope-after-close-is-live", !s3.(*scope).closed.Load())
		verifrt.Assert("c07.alias.second-cycle.fresh-scope", s3.(*scope) != s2.(*scope))
		s2 = s3
	}
	root.reportRegistry()
	root.reportRegistry()
	verifrt.Assert("c07.alias.delivered-exactly-once", sumNamed(&rec.vReporter, "x") == v0+v1+v2)
	// whichever spelling a scope was (re-)obtained through, what reaches the reporter is sanitized
	for _, c := range rec.calls {
		if c.name == "x" {
			verifrt.Assert("c07.alias.delivered-tags-are-sanitized", len(c.tags) == 1 && verifrt.EqStr(c.tags["k"], root.sanitizer.Value(sp1)))
		}
	}
	s2.Counter("x").Inc(v3)
	root.reportRegistry()
	verifrt.Assert("c07.alias.scope-after-close-stays-registered", sumNamed(&rec.vReporter, "x") == v0+v1+v2+v3)
	verifrt.Reach("c07.alias.end")
}

func VerifC07Alias()           { c07Alias(false) }
func VerifC07AliasConcurrent() { c07Alias(true) }

// VerifC07ConcurrentClose: two goroutines close the same subscope (and a third closes the
// root) at the same time: nothing panics, everything recorded before is delivered once.
func VerifC07ConcurrentClose() {
	rec := &lockedReporter{}
	root := newRootScope(ScopeOptions{Reporter: rec, OmitCardinalityMetrics: true, registryShardCount: 1}, 0)
	v := verifrt.Int64("inc")
	verifrt.Assume(v != 0)
	s := root.Tagged(map[string]string{"k": "v"})
	same := root.Tagged(map[string]string{"k": "v"})
	s.Counter("x").Inc(v)
	withRoot := verifrt.Choose("root-close-too", 2) == 1
	var wg sync.WaitGroup
	verifrt.Explore(2)
	wg.Add(2)
	go func() { defer wg.Done(); s.(io.Closer).Close() }()
	go func() { defer wg.Done(); same.(io.Closer).Close() }()
	if withRoot {
		wg.Add(1)
		go func() { defer wg.Done(); root.Close() }()
	}
	wg.Wait()
	verifrt.StopExplore()
	root.reportRegistry()
	verifrt.Assert("c07.concurrent-close.delivered-exactly-once", sumNamed(&rec.vReporter, "x") == v)
	verifrt.Reach("c07.concurrent-close.end")
}

// VerifC07ConcurrentRequest: two application goroutines request the same, not yet existing
// subscope at the same time; one records and closes it at once, the other records on whatever
// it was handed.  Everything recorded before the passes that follow is delivered exactly once
// (no scope that still holds undelivered values may be overwritten in the registry), on every
// schedule with at most 2 preemptions.  In the variant with one concurrent report pass the other
// goroutine's increment may legitimately be dropped (it can land after Close and retirement).
func c07ConcurrentRequest(passes int) {
	rec := &lockedReporter{}
	root := newRootScope(ScopeOptions{Reporter: rec, OmitCardinalityMetrics: true, registryShardCount: 1}, 0)
	v1, v2 := verifrt.Int64("inc"), verifrt.Int64("inc")
	verifrt.Assume(verifrt.And(v1 != 0, v2 != 0))
	var wg sync.WaitGroup
	verifrt.Explore(2)
	wg.Add(2)
	go func() {
		defer wg.Done()
		s := root.SubScope("a")
		s.Counter("x").Inc(v1)
		s.(io.Closer).Close()
	}()
	go func() {
		defer wg.Done()
		s := root.SubScope("a")
		s.Counter("x").Inc(v2)
	}()
	for p := 0; p < passes; p++ {
		wg.Add(1)
		go func() {
			defer wg.Done()
			root.reportRegistry()
		}()
	}
	wg.Wait()
	verifrt.StopExplore()
	root.reportRegistry()
	root.reportRegistry()
	got := sumNamed(&rec.vReporter, "a.x")
	if passes == 0 {
		verifrt.Assert("c07.concurrent-request.everything-recorded-is-delivered-exactly-once", got == v1+v2)
	} else {
		// with a pass running, the second goroutine's increment may land on the shared scope
		// after the first one closed it and the pass retired it: then it is dropped by design.
		// What was recorded before the Close is delivered exactly once in any case.
		verifrt.Assert("c07.concurrent-request.recorded-before-close-delivered-exactly-once",
			verifrt.Or(got == v1+v2, got == v1))
	}
	verifrt.Reach("c07.concurrent-request.end")
}

func VerifC07ConcurrentRequest()     { c07ConcurrentRequest(0) }
func VerifC07ConcurrentRequestPass() { c07ConcurrentRequest(1) }

// VerifC07ClosedParent: scopes derived from a closed scope are inert - also when the very same
// derivation (same name, or same tags) was made before the parent was closed and its result is
// still alive in the registry.  Sequential; SubScope and Tagged derivations.
func VerifC07ClosedParent() {
	rec := &vReporter{}
	root := newRootScope(ScopeOptions{Reporter: rec, OmitCardinalityMetrics: true, registryShardCount: 1}, 0)
	v1, v2 := verifrt.Int64("inc"), verifrt.Int64("inc")
	verifrt.Assume(verifrt.And(v1 != 0, v2 != 0))
	tagged := verifrt.Choose("derivation", 2) == 1
	p := root.SubScope("p")
	derive := func() Scope {
		if tagged {
			return p.Tagged(map[string]string{"k": "v"})
		}
		return p.SubScope("c")
	}
	name := "p.c.y"
	if tagged {
		name = "p.y"
	}
	c := derive()
	c.Counter("y").Inc(v1)
	p.(io.Closer).Close()
	if verifrt.Choose("pass-between", 2) == 1 {
		root.reportRegistry()
	}
	c2 := derive()
	c2.Counter("y").Inc(v2)
	c2.Gauge("g").Update(1)
	c2.Timer("t").Record(time.Second)
	root.reportRegistry()
	root.reportRegistry()
	verifrt.Assert("c07.closed-parent.derived-after-close-is-inert", sumNamed(rec, name) == v1)
	n := 0
	for _, cl := range rec.calls {
		if cl.kind == "gauge" || cl.kind == "timer" {
			n++
		}
	}
	verifrt.Assert("c07.closed-parent.no-gauge-or-timer-from-an-inert-scope", n == 0)
	verifrt.Reach("c07.closed-parent.end")
}

// VerifC07CycleHistogram: the obtain / record / Close / obtain again / record cycle of
// VerifC07Cycle with a histogram and a gauge instead of the counter (every metric kind that is
// buffered in the scope must survive a Close that lands while a pass is reporting that scope):
// both samples are delivered exactly once, the gauge's last update is delivered.
func VerifC07CycleHistogram() {
	rec := &lockedReporter{}
	root := newRootScope(ScopeOptions{Reporter: rec, OmitCardinalityMetrics: true, registryShardCount: 1}, 0)
	pre := root.SubScope("a")
	// the bucket has been reported once already (its handle is claimed)
	pre.Histogram("h", ValueBuckets{1}).RecordValue(0)
	root.reportRegistry()
	g1 := verifrt.Float64("gauge")
	withGauge := verifrt.Choose("with-gauge", 2) == 1 // a histogram alone, or together with a gauge
	var wg sync.WaitGroup
	verifrt.Explore(2)
	wg.Add(2)
	go func() {
		defer wg.Done()
		pre.Histogram("h", ValueBuckets{1}).RecordValue(0)
		if withGauge {
			pre.Gauge("g").Update(g1)
		}
		pre.(io.Closer).Close()
	}()
	go func() {
		defer wg.Done()
		root.reportRegistry()
	}()
	wg.Wait()
	verifrt.StopExplore()
	root.reportRegistry()
	root.reportRegistry()
	var samples int64
	var gauges int
	var last uint64
	for _, c := range rec.calls {
		if c.kind == "hv" && c.name == "a.h" {
			samples += c.i
		}
		if c.kind == "gauge" && c.name == "a.g" {
			gauges++
			last = fbits(c.f)
		}
	}
	verifrt.Assert("c07.cycle-histogram.samples-recorded-before-close-delivered-exactly-once", samples == 2)
	if withGauge {
		verifrt.Assert("c07.cycle-histogram.gauge-updated-before-close-delivered", gauges == 1 && last == fbits(g1))
	}
	verifrt.Reach("c07.cycle-histogram.end")
}
