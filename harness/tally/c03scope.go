//go:build verif

package tally

import (
	"math"
	"sync"
	"time"

	"github.com/uber-go/tally/v4/internal/verifrt"
)

// Harnesses of C03 that only use the public path and the report pass (no private fields of
// the histogram), kept apart from c03.go so that a change of the histogram's representation
// cannot take them down with it.

// VerifC03Scope: the same contract observed through the public path - a histogram obtained
// from a scope (explicit spec of 0..2 symbolic bounds, an explicitly empty spec included),
// recorded through RecordValue / RecordDuration / a stopwatch, delivered by a report pass.
func VerifC03Scope() {
	rec := &vReporter{}
	root := newRootScope(ScopeOptions{Reporter: rec, OmitCardinalityMetrics: true, registryShardCount: 1}, 0)
	n := verifrt.Choose("n", 3)
	durations := verifrt.Choose("durations", 2) == 1
	var spec Buckets
	vb := make(ValueBuckets, n)
	db := make(DurationBuckets, n)
	for i := 0; i < n; i++ {
		vb[i] = verifrt.Float64("bound")
		verifrt.Assume(finite(vb[i]))
		db[i] = time.Duration(verifrt.Int64("dbound"))
		if i > 0 {
			verifrt.Assume(verifrt.And(vb[i-1] < vb[i], db[i-1] < db[i]))
		}
	}
	if durations {
		spec = db
	} else {
		spec = vb
	}
	h := root.Histogram("h", spec)
	x := verifrt.Float64("sample")
	verifrt.Assume(finite(x))
	d := time.Duration(verifrt.Int64("dsample"))
	how := verifrt.Choose("how", 3)
	switch how {
	case 0:
		h.RecordValue(x)
	case 1:
		h.RecordDuration(d)
	case 2:
		sw := h.Start()
		sw.Stop()
	}
	root.reportRegistry()
	total := int64(0)
	for _, c := range rec.calls {
		verifrt.Assert("c03.scope.delivered-under-its-name", c.name == "h")
		total += c.i
		if c.i == 0 {
			continue
		}
		switch c.kind {
		case "hv":
			verifrt.Assert("c03.scope.value-histogram-reports-value-buckets", !durations)
			verifrt.Assert("c03.scope.sample-inside-its-bucket", verifrt.And(verifrt.Or(c.lo < x, fbits(c.lo) == fbits(-math.MaxFloat64)), x <= c.hi))
			inSpec := fbits(c.hi) == fbits(math.MaxFloat64)
			for i := 0; i < n; i++ {
				inSpec = verifrt.Or(inSpec, fbits(c.hi) == fbits(vb[i]))
			}
			verifrt.Assert("c03.scope.upper-bound-is-from-the-spec", inSpec)
		case "hd":
			verifrt.Assert("c03.scope.duration-histogram-reports-duration-buckets", durations)
			if how == 1 {
				verifrt.Assert("c03.scope.sample-inside-its-bucket", verifrt.And(verifrt.Or(c.dlo < d, c.dlo == time.Duration(math.MinInt64)), d <= c.dhi))
			}
			inSpec := c.dhi == time.Duration(math.MaxInt64)
			for i := 0; i < n; i++ {
				inSpec = verifrt.Or(inSpec, c.dhi == db[i])
			}
			verifrt.Assert("c03.scope.upper-bound-is-from-the-spec", inSpec)
		default:
			verifrt.Assert("c03.scope.only-histogram-reports", false)
		}
	}
	want := int64(0)
	if (how == 0 && !durations) || (how != 0 && durations) {
		want = 1 // the other kind of sample is ignored
	}
	verifrt.Assert("c03.scope.conservation", total == want)
	verifrt.Reach("c03.scope.end")
}

// VerifC03ConcurrentFirstSamples: two goroutines record the first samples of a fresh
// histogram at the same time (the same or different buckets, the solver's choice of values);
// every sample is delivered exactly once by the passes that follow.  2 preemptions.
func VerifC03ConcurrentFirstSamples() {
	rec := &lockedReporter{}
	root := newRootScope(ScopeOptions{Reporter: rec, OmitCardinalityMetrics: true, registryShardCount: 1}, 0)
	h := root.Histogram("h", ValueBuckets{1})
	x, y := verifrt.Float64("sample"), verifrt.Float64("sample")
	verifrt.Assume(verifrt.And(finite(x), finite(y)))
	var wg sync.WaitGroup
	verifrt.Explore(2)
	wg.Add(2)
	go func() { defer wg.Done(); h.RecordValue(x) }()
	go func() { defer wg.Done(); h.RecordValue(y) }()
	wg.Wait()
	verifrt.StopExplore()
	root.reportRegistry()
	root.reportRegistry()
	var n, low int64
	for _, c := range rec.calls {
		if c.kind == "hv" && c.name == "h" {
			n += c.i
			low += verifrt.IteInt64(c.hi == 1, c.i, 0)
		}
	}
	verifrt.Assert("c03.concurrent-first-samples.every-sample-delivered-exactly-once", n == 2)
	verifrt.Assert("c03.concurrent-first-samples.each-in-its-bucket", low == b2i(x <= 1)+b2i(y <= 1))
	verifrt.Reach("c03.concurrent-first.end")
}

// VerifC03TwoKinds: a value histogram and a duration histogram of one scope tree, each with a
// one-bound spec the solver chooses (it may make them collide in the tree's bucket cache, for
// instance bound 0 for both kinds): each is reported as its own kind with its own bounds.
func VerifC03TwoKinds() {
	rec := &vReporter{}
	root := newRootScope(ScopeOptions{Reporter: rec, OmitCardinalityMetrics: true, registryShardCount: 1}, 0)
	vb := verifrt.Float64("bound")
	verifrt.Assume(finite(vb))
	db := verifrt.Int64("dbound")
	x := verifrt.Float64("sample")
	verifrt.Assume(finite(x))
	d := verifrt.Int64("dsample")
	first := verifrt.Choose("first-kind", 2)
	var hv, hd Histogram
	if first == 0 {
		hv = root.Histogram("v", ValueBuckets{vb})
		hd = root.SubScope("s").Histogram("d", DurationBuckets{time.Duration(db)})
	} else {
		hd = root.SubScope("s").Histogram("d", DurationBuckets{time.Duration(db)})
		hv = root.Histogram("v", ValueBuckets{vb})
	}
	hv.RecordValue(x)
	hd.RecordDuration(time.Duration(d))
	root.reportRegistry()
	nv, nd := int64(0), int64(0)
	for _, c := range rec.calls {
		switch c.name {
		case "v":
			verifrt.Assert("c03.two-kinds.value-histogram-reported-as-values", c.kind == "hv")
			nv += c.i
			if c.kind == "hv" && c.i != 0 {
				verifrt.Assert("c03.two-kinds.value-sample-inside-its-bucket", verifrt.And(verifrt.Or(c.lo < x, fbits(c.lo) == fbits(-math.MaxFloat64)), x <= c.hi))
				verifrt.Assert("c03.two-kinds.value-bound-from-its-own-spec", verifrt.Or(fbits(c.hi) == fbits(vb), fbits(c.hi) == fbits(math.MaxFloat64)))
			}
		case "s.d":
			verifrt.Assert("c03.two-kinds.duration-histogram-reported-as-durations", c.kind == "hd")
			nd += c.i
			if c.kind == "hd" && c.i != 0 {
				verifrt.Assert("c03.two-kinds.duration-sample-inside-its-bucket", verifrt.And(verifrt.Or(int64(c.dlo) < d, c.dlo == time.Duration(math.MinInt64)), d <= int64(c.dhi)))
				verifrt.Assert("c03.two-kinds.duration-bound-from-its-own-spec", verifrt.Or(int64(c.dhi) == db, c.dhi == time.Duration(math.MaxInt64)))
			}
		}
	}
	verifrt.Assert("c03.two-kinds.each-sample-delivered-once", nv == 1 && nd == 1)
	verifrt.Reach("c03.two-kinds.end")
}

// VerifC03TwoSamples: bucketing must not depend on what was recorded before.  Two symbolic
// samples in a row on one histogram (2 symbolic strictly increasing finite bounds; values, and
// durations), then one pass: every delivered bucket (lower, upper] holds exactly the samples
// that lie in it, and both samples are delivered.
func VerifC03TwoSamples() {
	rec := &vReporter{}
	root := newRootScope(ScopeOptions{Reporter: rec, OmitCardinalityMetrics: true, registryShardCount: 1}, 0)
	if verifrt.Choose("durations", 2) == 0 {
		b1, b2 := verifrt.Float64("bound"), verifrt.Float64("bound")
		// (a bound equal to the value that stands for the open lower end would make the
		// reference below ambiguous; that corner is covered by VerifC03Value)
		verifrt.Assume(verifrt.And(verifrt.And(finite(b1), finite(b2)), verifrt.And(b1 < b2, b1 > -math.MaxFloat64)))
		x, y := verifrt.Float64("sample"), verifrt.Float64("sample")
		verifrt.Assume(verifrt.And(finite(x), finite(y)))
		h := root.Histogram("h", ValueBuckets{b1, b2})
		h.RecordValue(x)
		h.RecordValue(y)
		root.reportRegistry()
		var total int64
		for _, c := range rec.calls {
			total += c.i
			in := func(s float64) int64 {
				return b2i(verifrt.And(verifrt.Or(c.lo < s, fbits(c.lo) == fbits(-math.MaxFloat64)), s <= c.hi))
			}
			verifrt.Assert("c03.two-samples.bucket-holds-exactly-the-samples-inside-it", c.i == in(x)+in(y))
		}
		verifrt.Assert("c03.two-samples.both-delivered", total == 2)
	} else {
		b1, b2 := verifrt.Int64("dbound"), verifrt.Int64("dbound")
		verifrt.Assume(verifrt.And(b1 < b2, b1 > math.MinInt64))
		x, y := verifrt.Int64("dsample"), verifrt.Int64("dsample")
		h := root.Histogram("h", DurationBuckets{time.Duration(b1), time.Duration(b2)})
		h.RecordDuration(time.Duration(x))
		h.RecordDuration(time.Duration(y))
		root.reportRegistry()
		var total int64
		for _, c := range rec.calls {
			total += c.i
			in := func(s int64) int64 {
				return b2i(verifrt.And(verifrt.Or(int64(c.dlo) < s, c.dlo == time.Duration(math.MinInt64)), s <= int64(c.dhi)))
			}
			verifrt.Assert("c03.two-samples.bucket-holds-exactly-the-samples-inside-it", c.i == in(x)+in(y))
		}
		verifrt.Assert("c03.two-samples.both-delivered", total == 2)
	}
	verifrt.Reach("c03.two-samples.end")
}
