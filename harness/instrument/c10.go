//go:build verif

package instrument

import (
	"context"
	"errors"
	"fmt"
	"io"
	"time"

	tally "github.com/uber-go/tally/v4"
	"github.com/uber-go/tally/v4/internal/verifrt"
)

type vRec struct {
	counters []vC
	timers   []vC
}
type vC struct {
	name string
	tags map[string]string
	v    int64
}

func (r *vRec) ReportCounter(name string, tags map[string]string, value int64) {
	r.counters = append(r.counters, vC{name, tags, value})
}
func (r *vRec) ReportGauge(name string, tags map[string]string, value float64) {}
func (r *vRec) ReportTimer(name string, tags map[string]string, d time.Duration) {
	r.timers = append(r.timers, vC{name, tags, int64(d)})
}
func (r *vRec) ReportHistogramValueSamples(name string, tags map[string]string, b tally.Buckets, lo, hi float64, s int64) {
}
func (r *vRec) ReportHistogramDurationSamples(name string, tags map[string]string, b tally.Buckets, lo, hi time.Duration, s int64) {
}
func (r *vRec) Capabilities() tally.Capabilities { return nil }
func (r *vRec) Flush()                           {}

// error types whose nil value is still a non-nil error interface ("typed nil"): whatever one
// thinks of the practice, a function that returns such a value returned a non-nil error
type vPtrErr struct{ msg string }

func (e *vPtrErr) Error() string { return "ptr error" }

// VerifC10Call: the instrumented call wrapper over histories of 1..3 executions.
func VerifC10Call() {
	rec := &vRec{}
	scope, closer := tally.NewRootScope(tally.ScopeOptions{Reporter: rec, OmitCardinalityMetrics: true}, 0)
	call := NewCall(scope, "op")
	e1, e2 := errors.New("e1"), errors.New("e2")
	n := 1 + verifrt.Choose("execs", 3)
	var wantOK, wantErr int64
	for i := 0; i < n; i++ {
		invoked := 0
		var ret error
		switch verifrt.Choose("outcome", 9) {
		case 7:
			ret = (*vPtrErr)(nil)
		case 8:
			ret = &vPtrErr{"x"}
		case 1:
			ret = e1
		case 2:
			ret = e2
		case 3: // well-known sentinel errors are errors like any other
			ret = context.Canceled
		case 4:
			ret = fmt.Errorf("op: %w", context.Canceled)
		case 5:
			ret = context.DeadlineExceeded
		case 6:
			ret = io.EOF
		}
		got := call.Exec(func() error { invoked++; return ret })
		verifrt.Assert("c10.call-runs-function-exactly-once", invoked == 1)
		verifrt.Assert("c10.call-returns-error-unchanged", got == ret)
		verifrt.Assert("c10.call-records-one-latency", len(rec.timers) == i+1)
		if len(rec.timers) == i+1 {
			verifrt.Assert("c10.call-latency-name", rec.timers[i].name == "op.latency")
			verifrt.Assert("c10.call-latency-nonnegative", rec.timers[i].v >= 0)
		}
		if ret == nil {
			wantOK++
		} else {
			wantErr++
		}
	}
	closer.Close()
	var gotOK, gotErr int64
	for _, c := range rec.counters {
		verifrt.Assert("c10.call-counter-name", c.name == "op")
		switch c.tags["result_type"] {
		case "success":
			gotOK += c.v
		case "error":
			gotErr += c.v
		default:
			verifrt.Assert("c10.call-counter-tag", false)
		}
	}
	verifrt.Assert("c10.call-exactly-one-counter-per-exec", gotOK == wantOK && gotErr == wantErr)
	verifrt.Reach("c10.call.end")
}
