//go:build verif

package multi

import (
	"math"
	"sync"
	"time"

	tally "github.com/uber-go/tally/v4"
	"github.com/uber-go/tally/v4/internal/verifrt"
)

type vEntry struct {
	child  int
	handle int // allocation sequence number of the handle the call was made on (0 = reporter itself)
	op     string
	name   string
	tags   map[string]string
	i      int64
	f      uint64
	lo, hi uint64
	spec   tally.Buckets
}

type vLog struct {
	entries []vEntry
	nextH   int
}

type vCaps struct{ r, t bool }

func (c vCaps) Reporting() bool { return c.r }
func (c vCaps) Tagging() bool   { return c.t }

type vChild struct {
	id   int
	log  *vLog
	caps vCaps
}

func (c *vChild) add(e vEntry) { e.child = c.id; c.log.entries = append(c.log.entries, e) }

func (c *vChild) ReportCounter(name string, tags map[string]string, value int64) {
	c.add(vEntry{op: "counter", name: name, tags: tags, i: value})
}
func (c *vChild) ReportGauge(name string, tags map[string]string, value float64) {
	c.add(vEntry{op: "gauge", name: name, tags: tags, f: math.Float64bits(value)})
}
func (c *vChild) ReportTimer(name string, tags map[string]string, d time.Duration) {
	c.add(vEntry{op: "timer", name: name, tags: tags, i: int64(d)})
}
func (c *vChild) ReportHistogramValueSamples(name string, tags map[string]string, b tally.Buckets, lo, hi float64, s int64) {
	c.add(vEntry{op: "hv", name: name, tags: tags, spec: b, lo: math.Float64bits(lo), hi: math.Float64bits(hi), i: s})
}
func (c *vChild) ReportHistogramDurationSamples(name string, tags map[string]string, b tally.Buckets, lo, hi time.Duration, s int64) {
	c.add(vEntry{op: "hd", name: name, tags: tags, spec: b, lo: uint64(lo), hi: uint64(hi), i: s})
}
func (c *vChild) Capabilities() tally.Capabilities { return c.caps }
func (c *vChild) Flush()                           { c.add(vEntry{op: "flush"}) }

// cached flavour
type vHandle struct {
	c *vChild
	h int
}

func (c *vChild) alloc(op, name string, tags map[string]string, b tally.Buckets) vHandle {
	c.log.nextH++
	h := c.log.nextH
	c.add(vEntry{op: op, name: name, tags: tags, spec: b, handle: h})
	return vHandle{c, h}
}
func (c *vChild) AllocateCounter(name string, tags map[string]string) tally.CachedCount {
	return c.alloc("alloc-counter", name, tags, nil)
}
func (c *vChild) AllocateGauge(name string, tags map[string]string) tally.CachedGauge {
	return c.alloc("alloc-gauge", name, tags, nil)
}
func (c *vChild) AllocateTimer(name string, tags map[string]string) tally.CachedTimer {
	return c.alloc("alloc-timer", name, tags, nil)
}
func (c *vChild) AllocateHistogram(name string, tags map[string]string, b tally.Buckets) tally.CachedHistogram {
	return c.alloc("alloc-histogram", name, tags, b)
}
func (h vHandle) ReportCount(v int64) { h.c.add(vEntry{op: "count", handle: h.h, i: v}) }
func (h vHandle) ReportGauge(v float64) {
	h.c.add(vEntry{op: "gaugev", handle: h.h, f: math.Float64bits(v)})
}
func (h vHandle) ReportTimer(d time.Duration) {
	h.c.add(vEntry{op: "timerv", handle: h.h, i: int64(d)})
}
func (h vHandle) ReportSamples(v int64) { h.c.add(vEntry{op: "samples", handle: h.h, i: v}) }
func (h vHandle) ValueBucket(lo, hi float64) tally.CachedHistogramBucket {
	h.c.log.nextH++
	n := h.c.log.nextH
	h.c.add(vEntry{op: "vbucket", handle: h.h, lo: math.Float64bits(lo), hi: math.Float64bits(hi), i: int64(n)})
	return vHandle{h.c, n}
}
func (h vHandle) DurationBucket(lo, hi time.Duration) tally.CachedHistogramBucket {
	h.c.log.nextH++
	n := h.c.log.nextH
	h.c.add(vEntry{op: "dbucket", handle: h.h, lo: uint64(lo), hi: uint64(hi), i: int64(n)})
	return vHandle{h.c, n}
}

// expectFanout: the last call produced exactly n entries, child j-th, all equal to want
// (handles are per child: child j's handle number is base+j).
func expectFanout(label string, log *vLog, before, n int, want vEntry, perChildHandle bool, baseHandle int) {
	verifrt.Assert(label+".exactly-one-call-per-child", len(log.entries) == before+n)
	if len(log.entries) != before+n {
		return
	}
	for j := 0; j < n; j++ {
		e := log.entries[before+j]
		verifrt.Assert(label+".children-in-given-order", e.child == j)
		verifrt.Assert(label+".same-op", e.op == want.op)
		verifrt.Assert(label+".same-name", len(e.name) == len(want.name) && e.name == want.name)
		verifrt.Assert(label+".same-int", e.i == want.i || want.op == "vbucket" || want.op == "dbucket")
		verifrt.Assert(label+".same-float", e.f == want.f)
		verifrt.Assert(label+".same-bounds", e.lo == want.lo && e.hi == want.hi)
		if want.tags != nil {
			verifrt.Assert(label+".same-tags", len(e.tags) == len(want.tags) && e.tags["k"] == want.tags["k"])
		}
		if perChildHandle {
			verifrt.Assert(label+".reaches-the-matching-child-handle", e.handle == baseHandle+j)
		}
	}
}

func c19Plain(maxChildren, steps int) {
	n := verifrt.Choose("children", maxChildren+1)
	log := &vLog{}
	var rs []tally.StatsReporter
	capR, capT := true, true
	for j := 0; j < n; j++ {
		c := &vChild{id: j, log: log, caps: vCaps{verifrt.Bool("cap.reporting"), verifrt.Bool("cap.tagging")}}
		capR = verifrt.And(capR, c.caps.r)
		capT = verifrt.And(capT, c.caps.t)
		rs = append(rs, c)
	}
	m := NewMultiReporter(rs...)
	verifrt.Assert("c19.capabilities-are-conjunction", verifrt.And(m.Capabilities().Reporting() == capR, m.Capabilities().Tagging() == capT))
	tags := map[string]string{"k": verifrt.String("tagv", 1)}
	for s := 0; s < steps; s++ {
		before := len(log.entries)
		name := verifrt.String("name", 1)
		switch verifrt.Choose("op", 6) {
		case 0:
			v := verifrt.Int64("v")
			m.ReportCounter(name, tags, v)
			expectFanout("c19.counter", log, before, n, vEntry{op: "counter", name: name, tags: tags, i: v}, false, 0)
		case 1:
			v := verifrt.Float64("f")
			m.ReportGauge(name, tags, v)
			expectFanout("c19.gauge", log, before, n, vEntry{op: "gauge", name: name, tags: tags, f: math.Float64bits(v)}, false, 0)
		case 2:
			v := verifrt.Int64("d")
			m.ReportTimer(name, tags, time.Duration(v))
			expectFanout("c19.timer", log, before, n, vEntry{op: "timer", name: name, tags: tags, i: v}, false, 0)
		case 3:
			lo, hi, sm := verifrt.Float64("lo"), verifrt.Float64("hi"), verifrt.Int64("samples")
			m.ReportHistogramValueSamples(name, tags, nil, lo, hi, sm)
			expectFanout("c19.hv", log, before, n, vEntry{op: "hv", name: name, tags: tags, lo: math.Float64bits(lo), hi: math.Float64bits(hi), i: sm}, false, 0)
		case 4:
			lo, hi, sm := verifrt.Int64("dlo"), verifrt.Int64("dhi"), verifrt.Int64("samples")
			m.ReportHistogramDurationSamples(name, tags, nil, time.Duration(lo), time.Duration(hi), sm)
			expectFanout("c19.hd", log, before, n, vEntry{op: "hd", name: name, tags: tags, lo: uint64(lo), hi: uint64(hi), i: sm}, false, 0)
		case 5:
			m.Flush()
			expectFanout("c19.flush", log, before, n, vEntry{op: "flush"}, false, 0)
		}
	}
	verifrt.Reach("c19.plain.end")
}

func c19Cached(maxChildren int) {
	n := verifrt.Choose("children", maxChildren+1)
	log := &vLog{}
	var rs []tally.CachedStatsReporter
	capR, capT := true, true
	for j := 0; j < n; j++ {
		c := &vChild{id: j, log: log, caps: vCaps{verifrt.Bool("cap.reporting"), verifrt.Bool("cap.tagging")}}
		capR = verifrt.And(capR, c.caps.r)
		capT = verifrt.And(capT, c.caps.t)
		rs = append(rs, c)
	}
	m := NewMultiCachedReporter(rs...)
	verifrt.Assert("c19.cached.capabilities-are-conjunction", verifrt.And(m.Capabilities().Reporting() == capR, m.Capabilities().Tagging() == capT))
	tags := map[string]string{"k": verifrt.String("tagv", 1)}
	name := verifrt.String("name", 1)
	// an unrelated allocation first, so that handle numbers are not trivially aligned
	before := len(log.entries)
	other := m.AllocateCounter("other", tags)
	expectFanout("c19.alloc-other", log, before, n, vEntry{op: "alloc-counter", name: "other", tags: tags}, true, 1)
	base := log.nextH + 1
	before = len(log.entries)
	switch verifrt.Choose("kind", 5) {
	case 0:
		h := m.AllocateCounter(name, tags)
		expectFanout("c19.alloc-counter", log, before, n, vEntry{op: "alloc-counter", name: name, tags: tags}, true, base)
		for s := 0; s < 2; s++ {
			v := verifrt.Int64("v")
			before = len(log.entries)
			h.ReportCount(v)
			expectFanout("c19.count", log, before, n, vEntry{op: "count", i: v}, true, base)
		}
		before = len(log.entries)
		v := verifrt.Int64("v")
		other.ReportCount(v)
		expectFanout("c19.count-other", log, before, n, vEntry{op: "count", i: v}, true, 1)
	case 1:
		h := m.AllocateGauge(name, tags)
		expectFanout("c19.alloc-gauge", log, before, n, vEntry{op: "alloc-gauge", name: name, tags: tags}, true, base)
		v := verifrt.Float64("f")
		before = len(log.entries)
		h.ReportGauge(v)
		expectFanout("c19.gaugev", log, before, n, vEntry{op: "gaugev", f: math.Float64bits(v)}, true, base)
	case 2:
		h := m.AllocateTimer(name, tags)
		expectFanout("c19.alloc-timer", log, before, n, vEntry{op: "alloc-timer", name: name, tags: tags}, true, base)
		v := verifrt.Int64("d")
		before = len(log.entries)
		h.ReportTimer(time.Duration(v))
		expectFanout("c19.timerv", log, before, n, vEntry{op: "timerv", i: v}, true, base)
	case 3:
		h := m.AllocateHistogram(name, tags, tally.ValueBuckets{1})
		expectFanout("c19.alloc-histogram", log, before, n, vEntry{op: "alloc-histogram", name: name, tags: tags}, true, base)
		lo, hi := verifrt.Float64("lo"), verifrt.Float64("hi")
		before = len(log.entries)
		bbase := log.nextH + 1
		b := h.ValueBucket(lo, hi)
		expectFanout("c19.vbucket", log, before, n, vEntry{op: "vbucket", lo: math.Float64bits(lo), hi: math.Float64bits(hi)}, true, base)
		// a second bucket, then samples on the first
		b2 := h.ValueBucket(hi, lo)
		_ = b2
		v := verifrt.Int64("samples")
		before = len(log.entries)
		b.ReportSamples(v)
		expectFanout("c19.samples", log, before, n, vEntry{op: "samples", i: v}, true, bbase)
	case 4:
		h := m.AllocateHistogram(name, tags, tally.DurationBuckets{1})
		lo, hi := verifrt.Int64("dlo"), verifrt.Int64("dhi")
		before = len(log.entries)
		bbase := log.nextH + 1
		b := h.DurationBucket(time.Duration(lo), time.Duration(hi))
		expectFanout("c19.dbucket", log, before, n, vEntry{op: "dbucket", lo: uint64(lo), hi: uint64(hi)}, true, base)
		v := verifrt.Int64("samples")
		before = len(log.entries)
		b.ReportSamples(v)
		expectFanout("c19.dsamples", log, before, n, vEntry{op: "samples", i: v}, true, bbase)
	}
	// the very same metric allocated once more (same kind, name and tags): the multi reporter
	// keeps no memory of allocations - every call is fanned out and gets its own child handles
	before = len(log.entries)
	base2 := log.nextH + 1
	again := m.AllocateCounter("other", tags)
	expectFanout("c19.alloc-again", log, before, n, vEntry{op: "alloc-counter", name: "other", tags: tags}, true, base2)
	v2 := verifrt.Int64("v")
	before = len(log.entries)
	again.ReportCount(v2)
	expectFanout("c19.count-again", log, before, n, vEntry{op: "count", i: v2}, true, base2)
	before = len(log.entries)
	m.Flush()
	expectFanout("c19.cached.flush", log, before, n, vEntry{op: "flush"}, false, 0)
	verifrt.Reach("c19.cached.end")
}

func VerifC19Plain()   { c19Plain(3, 2) }
func VerifC19Cached()  { c19Cached(3) }
func VerifC19Plain5()  { c19Plain(5, 3) }
func VerifC19Cached5() { c19Cached(5) }

// vSlowChild: a child whose Flush takes a lock (a scheduling point), counting flushes.
type vSlowChild struct {
	mu      sync.Mutex
	flushes int
}

func (c *vSlowChild) ReportCounter(string, map[string]string, int64)       {}
func (c *vSlowChild) ReportGauge(string, map[string]string, float64)       {}
func (c *vSlowChild) ReportTimer(string, map[string]string, time.Duration) {}
func (c *vSlowChild) ReportHistogramValueSamples(string, map[string]string, tally.Buckets, float64, float64, int64) {
}
func (c *vSlowChild) ReportHistogramDurationSamples(string, map[string]string, tally.Buckets, time.Duration, time.Duration, int64) {
}
func (c *vSlowChild) AllocateCounter(string, map[string]string) tally.CachedCount { return nil }
func (c *vSlowChild) AllocateGauge(string, map[string]string) tally.CachedGauge   { return nil }
func (c *vSlowChild) AllocateTimer(string, map[string]string) tally.CachedTimer   { return nil }
func (c *vSlowChild) AllocateHistogram(string, map[string]string, tally.Buckets) tally.CachedHistogram {
	return nil
}
func (c *vSlowChild) Capabilities() tally.Capabilities { return vCaps{true, true} }
func (c *vSlowChild) Flush() {
	c.mu.Lock()
	c.flushes++
	c.mu.Unlock()
}

// VerifC19ConcurrentFlush: two goroutines flush the multi reporter at the same time; every
// flush call must reach every child (every schedule with at most 2 preemptions).
func VerifC19ConcurrentFlush() {
	a, b := &vSlowChild{}, &vSlowChild{}
	cached := verifrt.Choose("cached", 2) == 1
	var flush func()
	if cached {
		flush = NewMultiCachedReporter(a, b).Flush
	} else {
		flush = NewMultiReporter(a, b).Flush
	}
	var wg sync.WaitGroup
	verifrt.Explore(2)
	wg.Add(2)
	go func() { defer wg.Done(); flush() }()
	go func() { defer wg.Done(); flush() }()
	wg.Wait()
	verifrt.StopExplore()
	verifrt.Assert("c19.concurrent-flush.every-call-reaches-every-child", a.flushes == 2 && b.flushes == 2)
	verifrt.Reach("c19-concurrent-flush")
}

// vCapsChild: a child whose Capabilities takes a lock (a scheduling point) and answers with
// capability bits chosen by the solver.
type vCapsChild struct {
	vSlowChild
	caps vCaps
}

func (c *vCapsChild) Capabilities() tally.Capabilities {
	c.mu.Lock()
	defer c.mu.Unlock()
	return c.caps
}

// VerifC19ConcurrentCapabilities: two goroutines ask the multi reporter for its capabilities at
// the same time and read the answer afterwards; each answer must be the conjunction over the
// children whatever the other caller is doing (every schedule with at most 2 preemptions).
func VerifC19ConcurrentCapabilities() {
	a := &vCapsChild{caps: vCaps{verifrt.Bool("reporting"), verifrt.Bool("tagging")}}
	b := &vCapsChild{caps: vCaps{verifrt.Bool("reporting"), verifrt.Bool("tagging")}}
	cached := verifrt.Choose("cached", 2) == 1
	var ask func() tally.Capabilities
	if cached {
		ask = NewMultiCachedReporter(a, b).Capabilities
	} else {
		ask = NewMultiReporter(a, b).Capabilities
	}
	wantR := verifrt.And(a.caps.r, b.caps.r)
	wantT := verifrt.And(a.caps.t, b.caps.t)
	var got [2]tally.Capabilities
	var wg sync.WaitGroup
	verifrt.Explore(2)
	wg.Add(2)
	for i := 0; i < 2; i++ {
		i := i
		go func() {
			defer wg.Done()
			got[i] = ask()
			// an answer is read after it was obtained, possibly while the other call runs
			verifrt.Yield()
			r, t := got[i].Reporting(), got[i].Tagging()
			verifrt.Assert("c19.concurrent-capabilities.answer-is-the-conjunction", verifrt.And(r == wantR, t == wantT))
		}()
	}
	wg.Wait()
	verifrt.StopExplore()
	for i := 0; i < 2; i++ {
		verifrt.Assert("c19.concurrent-capabilities.answer-stays-the-conjunction",
			verifrt.And(got[i].Reporting() == wantR, got[i].Tagging() == wantT))
	}
	verifrt.Reach("c19-concurrent-capabilities")
}
