// Package verifrt is the harness runtime.  Under the symbolic engine every
// function here is intercepted; compiled natively (replay) the bodies below
// read the solver's model from the file named by VERIF_MODEL.
package verifrt

import (
	"encoding/json"
	"fmt"
	"math"
	"net"
	"os"
	"strings"
	"sync"
	"time"
	"unsafe"
)

// Model is one counterexample / path witness.
type Model struct {
	Model   map[string]uint64 `json:"model"`
	Choices map[string]int64  `json:"choices"`
}

var (
	mu      sync.Mutex
	cur     Model
	counts  = map[string]int{}
	emitLog []string
	// Failed records assertion failures during a native run.
	Failed []string
	// Reached records Reach tags.
	Reached []string
)

// Load reads a model file (used by the generated replay test).
func Load(path string) error {
	data, err := os.ReadFile(path)
	if err != nil {
		return err
	}
	var m Model
	if err := json.Unmarshal(data, &m); err != nil {
		return err
	}
	Set(m)
	return nil
}

// Set installs a model and clears the run state.
func Set(m Model) {
	mu.Lock()
	defer mu.Unlock()
	cur = m
	counts = map[string]int{}
	emitLog = nil
	Failed = nil
	Reached = nil
	sharedLog = nil
	for c, p := range udpPeers {
		c.Close()
		p.srv.Close()
		delete(udpPeers, c)
	}
	for a, p := range sinks {
		p.srv.Close()
		delete(sinks, a)
	}
}

// EmitLog returns the emit log of the current run.
func EmitLog() []string {
	mu.Lock()
	defer mu.Unlock()
	return append([]string{}, emitLog...)
}

func next(name string) string {
	k := counts[name]
	counts[name] = k + 1
	return fmt.Sprintf("%s#%d", name, k)
}

func val(name string) uint64 {
	mu.Lock()
	defer mu.Unlock()
	return cur.Model[next(name)]
}

func Symbolic() bool            { return false }
func Int64(name string) int64   { return int64(val(name)) }
func Uint64(name string) uint64 { return val(name) }
func Int(name string) int       { return int(int64(val(name))) }
func Int32(name string) int32   { return int32(val(name)) }
func Int16(name string) int16   { return int16(val(name)) }
func Rune(name string) rune     { return rune(int32(val(name))) }
func Byte(name string) byte     { return byte(val(name)) }
func Bool(name string) bool     { return val(name) != 0 }
func Float64(name string) float64 {
	return math.Float64frombits(val(name))
}

// String returns a string of n bytes.
func String(name string, n int) string {
	mu.Lock()
	defer mu.Unlock()
	base := next(name)
	b := make([]byte, n)
	for i := range b {
		b[i] = byte(cur.Model[fmt.Sprintf("%s[%d]", base, i)])
	}
	return string(b)
}

func Bytes(name string, n int) []byte { return []byte(String(name, n)) }

// OpaqueString returns a string whose length lies in [lo,hi]; content is irrelevant.
func OpaqueString(name string, lo, hi int) string {
	n := int(int64(val(name + ".len")))
	if n < lo {
		n = lo
	}
	if n > hi {
		n = hi
	}
	// every opaque chunk gets its own fill letter so that natively a stale or
	// misplaced chunk is distinguishable from the expected one
	mu.Lock()
	k := counts["opaque-fill"]
	counts["opaque-fill"] = k + 1
	mu.Unlock()
	return strings.Repeat(string(rune('a'+k%26)), n)
}

// OpaqueBytes is OpaqueString as a byte slice.
func OpaqueBytes(name string, lo, hi int) []byte { return []byte(OpaqueString(name, lo, hi)) }

// AbstractBuffers switches the engine to its abstract bytes.Buffer model (content
// = sequence of byte terms and opaque chunks of symbolic length).  No-op natively.
func AbstractBuffers() {}

// HashInjective: harness assumption that the modelled hash functions do not
// collide on the different inputs hashed in this run (true of the real hashes for
// every input anybody has found; the engine otherwise treats them as arbitrary).
func HashInjective() {}

// ConcreteHashes: from here on murmur3 of an entirely concrete input is computed by the real
// function (long concrete histories would otherwise create one fresh hash value per input and
// leave every comparison between them to the solver); symbolic inputs stay uninterpreted.
func ConcreteHashes() {}

// SplitConstDivision(n): from here on the engine decides a signed division (or
// remainder) of a symbolic value by a positive constant by forking on the quotient
// in (-n, n) instead of handing the solver a 64-bit divider; a dividend outside
// those cases keeps the ordinary division term.  No effect natively.
func SplitConstDivision(n int) {}

// ---- UDP connection: under the engine a model (datagram log, send faults at
// the harness's request); natively a real loop-back socket pair.

type udpPeer struct {
	srv  *net.UDPConn
	got  [][]byte
	done bool
}

var udpPeers = map[*net.UDPConn]*udpPeer{}

func NewUDPConn() *net.UDPConn {
	srv, err := net.ListenUDP("udp", &net.UDPAddr{IP: net.IPv4(127, 0, 0, 1)})
	if err != nil {
		panic(err)
	}
	srv.SetReadBuffer(8 << 20)
	c, err := net.DialUDP("udp", nil, srv.LocalAddr().(*net.UDPAddr))
	if err != nil {
		panic(err)
	}
	mu.Lock()
	udpPeers[c] = &udpPeer{srv: srv}
	mu.Unlock()
	return c
}

// SetSendFault makes the following sends on c fail (true) or succeed (false).
func SetSendFault(c *net.UDPConn, fail bool) {
	if fail {
		c.SetWriteDeadline(time.Unix(1, 0))
	} else {
		c.SetWriteDeadline(time.Time{})
	}
}

func drain(c *net.UDPConn) *udpPeer {
	mu.Lock()
	p := udpPeers[c]
	mu.Unlock()
	if p == nil {
		panic("verifrt: unknown connection")
	}
	buf := make([]byte, 70000)
	for {
		p.srv.SetReadDeadline(time.Now().Add(30 * time.Millisecond))
		n, _, err := p.srv.ReadFromUDP(buf)
		if err != nil {
			break
		}
		p.got = append(p.got, append([]byte{}, buf[:n]...))
	}
	return p
}

// ShiftWall returns t with its wall-clock reading moved by sec seconds and its monotonic reading
// (if any) unchanged - what a later clock reading looks like after the system clock was stepped.
func ShiftWall(t time.Time, sec int64) time.Time {
	type rep struct {
		wall uint64
		ext  int64
		loc  *time.Location
	}
	r := (*rep)(unsafe.Pointer(&t))
	if r.wall&(1<<63) != 0 {
		r.wall = uint64(int64(r.wall) + sec<<30) // seconds since 1885 live in bits 30..62
	} else {
		r.ext += sec
	}
	return t
}

// ---- sinks: a destination address to hand to code that dials by itself ----------

var sinks = map[string]*udpPeer{}

// NewUDPSink returns the address of a fresh destination (natively a loop-back listener).
func NewUDPSink() string {
	srv, err := net.ListenUDP("udp", &net.UDPAddr{IP: net.IPv4(127, 0, 0, 1)})
	if err != nil {
		panic(err)
	}
	srv.SetReadBuffer(8 << 20)
	mu.Lock()
	sinks[srv.LocalAddr().String()] = &udpPeer{srv: srv}
	mu.Unlock()
	return srv.LocalAddr().String()
}

func drainSink(addr string) *udpPeer {
	mu.Lock()
	p := sinks[addr]
	mu.Unlock()
	if p == nil {
		panic("verifrt: unknown sink " + addr)
	}
	buf := make([]byte, 70000)
	for {
		p.srv.SetReadDeadline(time.Now().Add(30 * time.Millisecond))
		n, _, err := p.srv.ReadFromUDP(buf)
		if err != nil {
			break
		}
		p.got = append(p.got, append([]byte{}, buf[:n]...))
	}
	return p
}

// SinkDatagrams returns the number of datagrams that arrived at the sink.
func SinkDatagrams(addr string) int { return len(drainSink(addr).got) }

// SinkDatagram returns datagram i of the sink.
func SinkDatagram(addr string, i int) string { return string(drainSink(addr).got[i]) }

// SinkFault is not available natively for dialled connections (no-op).
func SinkFault(addr string, fail bool) {}

// Datagrams returns the number of datagrams sent on c so far.
func Datagrams(c *net.UDPConn) int { return len(drain(c).got) }

// DatagramEq tells whether datagram i consists of exactly the bytes of s.
func DatagramEq(c *net.UDPConn, i int, s string) bool { return string(drain(c).got[i]) == s }

// DatagramLen returns the length of datagram i.
func DatagramLen(c *net.UDPConn, i int) int { return len(drain(c).got[i]) }

// Datagram returns the content of datagram i.
func Datagram(c *net.UDPConn, i int) string { return string(drain(c).got[i]) }

// Choose returns a value in [0,n); the engine explores every alternative.
func Choose(name string, n int) int {
	mu.Lock()
	defer mu.Unlock()
	k := counts["choose:"+name]
	counts["choose:"+name] = k + 1
	v := int(cur.Choices[fmt.Sprintf("%s#%d", name, k)])
	if v < 0 || v >= n {
		v = 0
	}
	return v
}

type assumeFailed struct{}

// Assume restricts the inputs; natively a violated assumption ends the run quietly.
func Assume(c bool) {
	if !c {
		panic(assumeFailed{})
	}
}

// IsAssumeFailure tells the replay driver that a recovered panic was an Assume.
func IsAssumeFailure(r interface{}) bool { _, ok := r.(assumeFailed); return ok }

// Assert states the property.
func Assert(label string, c bool) {
	if !c {
		mu.Lock()
		Failed = append(Failed, label)
		mu.Unlock()
	}
}

// Class names a predicate over the inputs used to key known findings.
func Class(name string, c bool) {}
func ClearClasses()             {}

func Reach(tag string) {
	mu.Lock()
	Reached = append(Reached, tag)
	mu.Unlock()
}

func And(a, b bool) bool     { return a && b }
func Or(a, b bool) bool      { return a || b }
func Not(a bool) bool        { return !a }
func Implies(a, b bool) bool { return !a || b }
func IteInt64(c bool, a, b int64) int64 {
	if c {
		return a
	}
	return b
}
func EqStr(a, b string) bool   { return a == b }
func LessStr(a, b string) bool { return a < b }
func EqBytes(a, b []byte) bool { return string(a) == string(b) }

func emit(s string) {
	mu.Lock()
	emitLog = append(emitLog, s)
	mu.Unlock()
}

func Emit(tag string, v int64)    { emit(fmt.Sprintf("%s|%d", tag, uint64(v))) }
func EmitU(tag string, v uint64)  { emit(fmt.Sprintf("%s|%d", tag, v)) }
func EmitS(tag string, s string)  { emit(fmt.Sprintf("%s|%x", tag, s)) }
func EmitF(tag string, f float64) { emit(fmt.Sprintf("%s|%d", tag, math.Float64bits(f))) }
func EmitB(tag string, b bool)    { emit(fmt.Sprintf("%s|%v", tag, b)) }

func Explore(preemptions int) {}
func StopExplore()            {}

// ExploreOnly restricts preemption points to synchronisation operations issued (directly or
// through library code) by functions of packages whose import path ends with a given suffix.
func ExploreOnly(pkgSuffixes ...string) {}
func PermuteMaps(maxSize int)           {}

// RotateMaps(1): ranging over a map with more entries than the PermuteMaps bound explores
// every rotation of its insertion order (n paths); no effect natively.
func RotateMaps(on int) {}
func LiveThreads() int                  { return 0 }
func Yield()                            {}
func WaitIdle()                         {}
func SetTicks(n int)                    {}

func Float64bits(f float64) uint64     { return math.Float64bits(f) }
func Float64frombits(u uint64) float64 { return math.Float64frombits(u) }
func IsNaN(f float64) bool             { return f != f }

// shared, globally ordered log (a scheduling point under the engine)
var sharedLog []uint64

func LogAppend(v uint64) {
	Point("log")
	mu.Lock()
	sharedLog = append(sharedLog, v)
	mu.Unlock()
}
func LogLen() int {
	mu.Lock()
	defer mu.Unlock()
	return len(sharedLog)
}
func LogAt(i int) uint64 {
	mu.Lock()
	defer mu.Unlock()
	return sharedLog[i]
}

// Point is a scheduling point of the native schedule replay (no-op unless a schedule is loaded).
func Point(kind string) {}

// RenderIntegralSplit lets the engine case-split the "%.Nf" rendering of a symbolic float64 on
// "integral and within int64". No-op natively.
func RenderIntegralSplit() {}
