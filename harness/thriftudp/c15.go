//go:build verif

package thriftudp

import (
	"net"

	"github.com/uber-go/tally/v4/internal/verifrt"
	"github.com/uber-go/tally/v4/thirdparty/github.com/apache/thrift/lib/go/thrift"
)

func vTransport() (*TUDPTransport, *net.UDPConn) {
	c := verifrt.NewUDPConn()
	return &TUDPTransport{conn: c, addr: nil, readByteBuf: make([]byte, 1)}, c
}

func isNotOpen(err error) bool {
	te, ok := err.(thrift.TTransportException)
	return ok && te.TypeId() == thrift.NOT_OPEN
}

// reference model of the transport: the chunks accepted since the last Flush /
// abandonment, and the datagrams that must have left.
type vRef struct {
	cur    string
	sent   []string
	closed bool
	// the socket was closed directly, not through the transport
	sockClosed bool
}

// vAbandon is what a writer does with a message it gives up after an error (the
// M3 reporter does this after a failed emit): it tells the transport to drop it.
func vAbandon(t thrift.TTransport, ref *vRef) {
	if d, ok := t.(interface{ Discard() }); ok {
		d.Discard()
	}
	ref.cur = ""
}

// c15Ops drives one transport through a sequence of n operations chosen by the
// explorer, with chunk lengths chosen by the solver.
func c15Ops(n int, maxChunk int) {
	verifrt.AbstractBuffers()
	t, c := vTransport()
	ref := &vRef{}
	for i := 0; i < n; i++ {
		switch verifrt.Choose("op", 8) {
		case 7: // the socket is closed behind the transport's back (Conn() is exported)
			c.Close()
			ref.sockClosed = true
		case 0: // Write
			b := verifrt.OpaqueBytes("w", 1, maxChunk)
			k, err := t.Write(b)
			c15AfterWrite(ref, string(b), len(b), k, err)
		case 1: // WriteString
			s := verifrt.OpaqueString("s", 1, maxChunk)
			k, err := t.WriteString(s)
			c15AfterWrite(ref, s, len(s), k, err)
		case 2: // WriteByte
			b := verifrt.Byte("b")
			err := t.WriteByte(b)
			k := 0
			if err == nil {
				k = 1
			}
			c15AfterWrite(ref, string([]byte{b}), 1, k, err)
		case 3: // Flush, send succeeds
			verifrt.SetSendFault(c, false)
			err := t.Flush()
			c15AfterFlush(t, c, ref, err, ref.sockClosed)
		case 4: // Flush, send fails
			verifrt.SetSendFault(c, true)
			err := t.Flush()
			verifrt.SetSendFault(c, false)
			c15AfterFlush(t, c, ref, err, true)
		case 5: // Close
			err := t.Close()
			if ref.sockClosed && !ref.closed {
				// the first Close may report that the socket was gone already; it still closes
				verifrt.Assert("c15.close-of-a-dead-socket-reports-it", err != nil)
			} else {
				verifrt.Assert("c15.close-idempotent-no-error", err == nil)
			}
			verifrt.Assert("c15.closed-transport-not-open", !t.IsOpen())
			ref.closed = true
		case 6: // the writer abandons the message in progress
			vAbandon(t, ref)
		}
	}
	// whatever happened before: abandon the message in progress; a fresh message
	// then goes out alone and intact
	if !ref.closed && !ref.sockClosed {
		verifrt.SetSendFault(c, false)
		vAbandon(t, ref)
		b := verifrt.Byte("final")
		verifrt.Assert("c15.final.write-accepted", t.WriteByte(b) == nil)
		s := verifrt.OpaqueString("fs", 1, 100)
		_, err := t.WriteString(s)
		verifrt.Assert("c15.final.writestring-accepted", err == nil)
		verifrt.Assert("c15.final.flush-ok", t.Flush() == nil)
		want := string([]byte{b}) + s
		nd := verifrt.Datagrams(c)
		verifrt.Assert("c15.final.one-more-datagram", nd == len(ref.sent)+1)
		if nd == len(ref.sent)+1 {
			verifrt.Assert("c15.final.message-alone-and-intact", verifrt.DatagramEq(c, nd-1, want))
		}
	}
	verifrt.Reach("c15-ops")
}

func c15AfterWrite(ref *vRef, chunk string, n int, k int, err error) {
	if ref.closed {
		verifrt.Assert("c15.write-after-close-not-open", isNotOpen(err))
		return
	}
	if len(ref.cur)+n > MaxLength {
		verifrt.Assert("c15.oversize-write-refused", err != nil)
		return
	}
	verifrt.Assert("c15.fitting-write-accepted", err == nil)
	verifrt.Assert("c15.write-count", k == n)
	ref.cur += chunk
}

func c15AfterFlush(t *TUDPTransport, c *net.UDPConn, ref *vRef, err error, fault bool) {
	if ref.closed {
		verifrt.Assert("c15.flush-after-close-not-open", isNotOpen(err))
		return
	}
	if fault {
		verifrt.Assert("c15.send-error-reported", err != nil)
	} else {
		verifrt.Assert("c15.flush-ok", err == nil)
		ref.sent = append(ref.sent, ref.cur)
	}
	nd := verifrt.Datagrams(c)
	verifrt.Assert("c15.datagram-count", nd == len(ref.sent))
	if nd == len(ref.sent) && nd > 0 && !fault {
		verifrt.Assert("c15.datagram-is-exactly-the-accepted-writes", verifrt.DatagramEq(c, nd-1, ref.sent[nd-1]))
	}
	verifrt.Assert("c15.buffer-empty-after-flush", t.writeBuf.Len() == 0)
	ref.cur = ""
}

func VerifC15Ops3() { c15Ops(3, 70000) }
func VerifC15Ops4() { c15Ops(4, 70000) }
func VerifC15Ops5() { c15Ops(5, 70000) }

// VerifC15Multi: the multi-destination transport performs every write and flush on
// every destination (no destination failing), Close closes all, use after Close is
// a not-open error.
func VerifC15Multi() {
	verifrt.AbstractBuffers()
	t1, c1 := vTransport()
	t2, c2 := vTransport()
	m := &TMultiUDPTransport{transports: []thrift.TTransport{t1, t2}}
	want := ""
	sent := 0
	for i := 0; i < 3; i++ {
		switch verifrt.Choose("op", 3) {
		case 0:
			b := verifrt.OpaqueBytes("w", 1, 40000)
			k, err := m.Write(b)
			if len(want)+len(b) > MaxLength {
				verifrt.Assert("c15.multi.oversize-refused", err != nil)
				// abandon
				vAbandon(m, &vRef{})
				want = ""
			} else {
				verifrt.Assert("c15.multi.write-ok", verifrt.And(err == nil, k == len(b)))
				want += string(b)
			}
		case 1:
			verifrt.Assert("c15.multi.flush-ok", m.Flush() == nil)
			sent++
			for _, c := range []*net.UDPConn{c1, c2} {
				n := verifrt.Datagrams(c)
				verifrt.Assert("c15.multi.every-destination-gets-every-flush", n == sent)
				if n == sent {
					verifrt.Assert("c15.multi.every-destination-gets-every-write", verifrt.DatagramEq(c, n-1, want))
				}
			}
			want = ""
		case 2:
			verifrt.Assert("c15.multi.open", m.IsOpen())
		}
	}
	verifrt.Assert("c15.multi.close-ok", m.Close() == nil)
	verifrt.Assert("c15.multi.close-idempotent", m.Close() == nil)
	verifrt.Assert("c15.multi.closed", !m.IsOpen())
	_, err := m.Write([]byte{1})
	verifrt.Assert("c15.multi.write-after-close-not-open", isNotOpen(err))
	verifrt.Assert("c15.multi.flush-after-close-not-open", isNotOpen(m.Flush()))
	verifrt.Reach("c15-multi")
}

// VerifC15Alias (real bytes.Buffer code): the transport must not keep a reference to
// the caller's slice - the caller reuses it before the Flush.
func VerifC15Alias() {
	t, c := vTransport()
	want := ""
	sizes := []int{1, 3, 4096}
	for i := 0; i < 2; i++ {
		b := verifrt.Bytes("w", sizes[verifrt.Choose("size", len(sizes))])
		want += string(b)
		k, err := t.Write(b)
		verifrt.Assert("c15.alias.write-ok", verifrt.And(err == nil, k == len(b)))
		for j := range b {
			b[j] = ^b[j]
		}
	}
	verifrt.Assert("c15.alias.flush-ok", t.Flush() == nil)
	verifrt.Assert("c15.alias.one-datagram", verifrt.Datagrams(c) == 1)
	if verifrt.Datagrams(c) == 1 {
		verifrt.Assert("c15.alias.datagram-is-what-was-written", verifrt.DatagramEq(c, 0, want))
	}
	verifrt.Reach("c15-alias")
}

// VerifC15MultiFault: the first destination's send fails; the writer abandons the message (as
// the reporter does) and the next message must reach every destination alone and intact.
func VerifC15MultiFault() {
	verifrt.AbstractBuffers()
	t1, c1 := vTransport()
	t2, c2 := vTransport()
	m := &TMultiUDPTransport{transports: []thrift.TTransport{t1, t2}}
	a := verifrt.OpaqueBytes("a", 1, 30000)
	_, err := m.Write(a)
	verifrt.Assert("c15.multi-fault.write-ok", err == nil)
	which := verifrt.Choose("failing-destination", 2)
	verifrt.SetSendFault([]*net.UDPConn{c1, c2}[which], true)
	verifrt.Assert("c15.multi-fault.flush-reports-the-error", m.Flush() != nil)
	verifrt.SetSendFault(c1, false)
	verifrt.SetSendFault(c2, false)
	vAbandon(m, &vRef{})
	n1, n2 := verifrt.Datagrams(c1), verifrt.Datagrams(c2)
	b := verifrt.OpaqueBytes("b", 1, 30000)
	_, err = m.Write(b)
	verifrt.Assert("c15.multi-fault.next-write-ok", err == nil)
	verifrt.Assert("c15.multi-fault.next-flush-ok", m.Flush() == nil)
	verifrt.Assert("c15.multi-fault.one-more-datagram-each", verifrt.Datagrams(c1) == n1+1 && verifrt.Datagrams(c2) == n2+1)
	if verifrt.Datagrams(c1) == n1+1 && verifrt.Datagrams(c2) == n2+1 {
		verifrt.Assert("c15.multi-fault.next-message-alone-and-intact", verifrt.And(
			verifrt.DatagramEq(c1, n1, string(b)), verifrt.DatagramEq(c2, n2, string(b))))
	}
	verifrt.Reach("c15-multi-fault")
}
