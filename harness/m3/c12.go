//go:build verif

package m3

import (
	"math"
	"sync"
	"time"

	tally "github.com/uber-go/tally/v4"
	"github.com/uber-go/tally/v4/internal/cache"
	"github.com/uber-go/tally/v4/internal/verifrt"
	customtransport "github.com/uber-go/tally/v4/m3/customtransports"
	m3thrift "github.com/uber-go/tally/v4/m3/thrift/v2"
	"github.com/uber-go/tally/v4/m3/thriftudp"
)

// vSizer is a reporter with just what the allocation path needs (no sockets, no goroutines).
func vSizer(proto Protocol) *reporter {
	if c12EarlierReporter {
		// another reporter with the other wire protocol was built earlier in this process
		other := Compact
		if proto == Compact {
			other = Binary
		}
		newResourcePool(vFactory(other)).getProto()
	}
	pool := newResourcePool(vFactory(proto))
	p := pool.getProto()
	return &reporter{
		bucketIDTagName: DefaultHistogramBucketIDName,
		bucketTagName:   DefaultHistogramBucketName,
		bucketValFmt:    "%.6f",
		calc:            p.Transport().(*customtransport.TCalcTransport),
		calcProto:       p,
		resourcePool:    pool,
		stringInterner:  cache.NewStringInterner(),
		tagCache:        cache.NewTagCache(),
	}
}

// vActual is the number of bytes the real Metric.Write produces for m (the calculator
// transport counts exactly what the encoder writes: C16).
func vActual(proto Protocol, m *m3thrift.Metric) int32 {
	calc := &customtransport.TCalcTransport{}
	p := vFactory(proto).GetProtocol(calc)
	err := m.Write(p)
	verifrt.Assert("c12.metric-encodes", err == nil)
	return calc.GetCount()
}

// c12PerMetric (lemma L1): the size charged for a metric at allocation is at least what the
// metric occupies in a batch as process() emits it, for every name/tag length, value and
// timestamp.
func c12PerMetric(proto Protocol, kind int, ntags int) {
	r := vSizer(proto)
	name := verifrt.OpaqueString("name", 1, 600)
	var tags map[string]string
	if ntags > 0 {
		tags = map[string]string{}
		for i := 0; i < ntags; i++ {
			tags[string(rune('a'+i))+verifrt.OpaqueString("tk", 0, 60)] = verifrt.OpaqueString("tv", 0, 100)
		}
	}
	ts := verifrt.Int64("timestamp")
	verifrt.Assume(ts >= 0)
	// the same name and tags may already have been used for another kind of metric
	prior := 0
	if ntags <= 1 {
		prior = verifrt.Choose("prior-use", 4)
	}
	switch prior {
	case 1:
		r.AllocateCounter(name, tags)
	case 2:
		r.AllocateGauge(name, tags)
	case 3:
		r.AllocateTimer(name, tags)
	}
	var charged int32
	var m m3thrift.Metric
	switch kind {
	case 0:
		cm := r.AllocateCounter(name, tags).(cachedMetric)
		charged, m = cm.size, cm.metric
		m.Value.Count = verifrt.Int64("value")
	case 1:
		cm := r.AllocateGauge(name, tags).(cachedMetric)
		charged, m = cm.size, cm.metric
		m.Value.Gauge = verifrt.Float64("gauge")
	case 2:
		cm := r.AllocateTimer(name, tags).(cachedMetric)
		charged, m = cm.size, cm.metric
		m.Value.Timer = verifrt.Int64("value")
	case 3, 4:
		var spec tally.Buckets = tally.ValueBuckets{1.5, 250000}
		if kind == 4 {
			spec = tally.DurationBuckets{time.Millisecond, 90 * time.Minute}
		}
		h := r.AllocateHistogram(name, tags, spec).(cachedHistogram)
		bs := h.cachedValueBuckets
		if kind == 4 {
			bs = h.cachedDurationBuckets
		}
		b := bs[verifrt.Choose("bucket", len(bs))]
		charged, m = b.metric.size, b.metric.metric
		m.Value.Count = verifrt.Int64("value")
		// as process() sends it: the metric's tags plus the two bucket tags
		full := append([]m3thrift.MetricTag{}, m.Tags...)
		full = append(full, m3thrift.MetricTag{Name: r.bucketIDTagName, Value: b.bucketID},
			m3thrift.MetricTag{Name: r.bucketTagName, Value: b.bucket})
		m.Tags = full
	}
	m.Timestamp = ts
	actual := vActual(proto, &m)
	verifrt.Assert("c12.charged-size-covers-encoded-metric", charged >= actual)
	verifrt.Reach("c12-per-metric")
}

var c12EarlierReporter bool

func VerifC12MetricSecondReporterBinary() {
	c12EarlierReporter = true
	c12PerMetric(Binary, verifrt.Choose("kind", 5), verifrt.Choose("ntags", 2))
}
func VerifC12MetricSecondReporterCompact() {
	c12EarlierReporter = true
	c12PerMetric(Compact, verifrt.Choose("kind", 5), verifrt.Choose("ntags", 2))
}

func c12PerMetricAll(proto Protocol, maxTags int) {
	c12PerMetric(proto, verifrt.Choose("kind", 5), verifrt.Choose("ntags", maxTags+1))
}

func VerifC12MetricCompact() { c12PerMetricAll(Compact, 2) }
func VerifC12MetricBinary()  { c12PerMetricAll(Binary, 2) }
func VerifC12MetricCompact8() {
	c12PerMetric(Compact, verifrt.Choose("kind", 5), 3+verifrt.Choose("ntags", 6))
}
func VerifC12MetricBinary8() {
	c12PerMetric(Binary, verifrt.Choose("kind", 5), 3+verifrt.Choose("ntags", 6))
}

// c12Envelope (lemma L2): a datagram of n metrics is no longer than the reporter's
// overhead allowance plus the metrics' own encodings, for every sequence id, n at the list
// header boundaries and common tags of any length.
func c12Envelope(proto Protocol) {
	verifrt.AbstractBuffers()
	var common map[string]string
	nc := verifrt.Choose("common", 3)
	if nc > 0 {
		common = map[string]string{}
		for i := 0; i < nc; i++ {
			common[string(rune('p'+i))+verifrt.OpaqueString("ck", 0, 60)] = verifrt.OpaqueString("cv", 0, 200)
		}
	}
	r, addr := vNew(proto, 4, 65000, common)
	n := []int{1, 15, 128}[verifrt.Choose("n", 3)] // the first lengths whose list header is 1, 2 and 3 bytes long
	seq := verifrt.Int32("seq")
	verifrt.Assume(verifrt.And(seq >= 0, seq < math.MaxInt32))
	verifrt.Assert("c12.close-ok", r.Close() == nil) // stops the goroutines; flush() is driven directly
	r.client.SeqId = seq
	mets := make([]m3thrift.Metric, n)
	var sum int32
	for i := range mets {
		mets[i] = m3thrift.Metric{Name: "m", Timestamp: 1}
		mets[i].Value.MetricType = m3thrift.MetricType_COUNTER
		mets[i].Value.Count = 1
		sum += vActual(proto, &mets[i])
	}
	before := verifrt.SinkDatagrams(addr)
	r.flush(mets)
	verifrt.Assert("c12.one-datagram-per-batch", verifrt.SinkDatagrams(addr) == before+1)
	if verifrt.SinkDatagrams(addr) == before+1 {
		d := verifrt.SinkDatagram(addr, before)
		verifrt.Assert("c12.envelope-allowance-covers-framing", int32(len(d)) <= r.overheadBytes+sum)
	}
	verifrt.Reach("c12-envelope")
}

func VerifC12EnvelopeCompact() { c12Envelope(Compact) }
func VerifC12EnvelopeBinary()  { c12Envelope(Binary) }

// c12Batching (lemma L3): the batching loop never lets the charged sizes of one batch exceed
// freeBytes, keeps every metric exactly once and in order, and starts a new batch only at a
// flush marker or when the next metric does not fit.
var c12BucketSamples bool

func c12Batching(k int) {
	r, addr := vNew(Compact, 2*k+2, 1440, nil)
	free := r.freeBytes
	sizes := make([]int32, k)
	marker := make([]bool, k+1)
	names := []string{"m0", "m1", "m2", "m3", "m4", "m5"}
	for i := 0; i < k; i++ {
		sizes[i] = verifrt.Int32("size")
		verifrt.Assume(verifrt.And(sizes[i] >= 1, sizes[i] <= free)) // each metric fits on its own
		if i > 0 && verifrt.Choose("flush-marker", 2) == 1 {
			marker[i] = true
			r.metCh <- sizedMetric{}
		}
		m := m3thrift.Metric{Name: names[i], Timestamp: 1}
		m.Value.MetricType = m3thrift.MetricType_COUNTER
		m.Value.Count = int64(i)
		sm := sizedMetric{m: m, size: sizes[i], set: true}
		if c12BucketSamples {
			// a histogram sample: process() appends its two bucket tags from a recycled slice
			sm.bucket, sm.bucketID = "b-"+names[i], "000"+names[i][1:]
		}
		r.metCh <- sm
	}
	verifrt.Assert("c12.batching.close-ok", r.Close() == nil)
	next := 0
	var prevSum int32
	for _, b := range vDecode(addr, Compact) {
		var sum int32
		verifrt.Assert("c12.batching.no-empty-batch", len(b.batch.Metrics) > 0)
		for j, m := range b.batch.Metrics {
			verifrt.Assert("c12.batching.order-kept-nothing-dropped-or-duplicated", next < k && m.Name == names[next])
			if next >= k {
				break
			}
			if c12BucketSamples {
				verifrt.Assert("c12.batching.sample-keeps-its-own-bucket-tags", tagsEqual(m.Tags, map[string]string{
					"bucketid": "000" + names[next][1:], "bucket": "b-" + names[next]}))
			}
			if j == 0 && next > 0 {
				// a new batch starts here: only at a marker or because this metric did not fit
				verifrt.Assert("c12.batching.new-batch-only-when-needed", verifrt.Or(marker[next], prevSum+sizes[next] > free))
			}
			if j > 0 {
				verifrt.Assert("c12.batching.marker-forces-a-flush", !marker[next])
			}
			sum += sizes[next]
			next++
		}
		verifrt.Assert("c12.batching.charged-sizes-fit-in-free-bytes", sum <= free)
		prevSum = sum
	}
	verifrt.Assert("c12.batching.every-metric-emitted", next == k)
	verifrt.Reach("c12-batching")
}

func VerifC12Batching3() { c12Batching(3) }

// VerifC12BatchingBuckets: the same with histogram samples (bucket tags attached at send time).
func VerifC12BatchingBuckets() { c12BucketSamples = true; c12Batching(4) }
func VerifC12Batching5()       { c12Batching(5) }

// VerifC12BatchingAfterSendError (L3 with a fault): the first batch fails to send; the metrics
// queued afterwards must still go out in batches whose charged sizes fit, nothing twice.
func VerifC12BatchingAfterSendError() {
	r, addr := vNew(Compact, 16, 1440, nil)
	free := r.freeBytes
	conn := r.client.Transport.(*thriftudp.TUDPTransport).Conn()
	names := []string{"m0", "m1", "m2", "m3"}
	sizes := make([]int32, 4)
	push := func(i int) {
		sizes[i] = verifrt.Int32("size")
		verifrt.Assume(verifrt.And(sizes[i] >= 1, sizes[i] <= free))
		m := m3thrift.Metric{Name: names[i], Timestamp: 1}
		m.Value.MetricType = m3thrift.MetricType_COUNTER
		r.metCh <- sizedMetric{m: m, size: sizes[i], set: true}
	}
	verifrt.SetSendFault(conn, true)
	push(0)
	push(1)
	verifrt.Assume(sizes[0]+sizes[1] <= free) // one batch
	r.metCh <- sizedMetric{}                  // flush marker: this batch meets the send error
	for r.numBatches.Load() < 1 {
		time.Sleep(time.Millisecond)
	}
	verifrt.SetSendFault(conn, false)
	push(2)
	push(3)
	verifrt.Assert("c12.fault.close-ok", r.Close() == nil)
	seen := map[string]int{}
	for _, b := range vDecode(addr, Compact) {
		var sum int32
		for _, m := range b.batch.Metrics {
			seen[m.Name]++
			for i, n := range names {
				if n == m.Name {
					sum += sizes[i]
				}
			}
		}
		verifrt.Assert("c12.fault.charged-sizes-fit-in-free-bytes", sum <= free)
	}
	verifrt.Assert("c12.fault.later-metrics-emitted-once", seen["m2"] == 1 && seen["m3"] == 1)
	verifrt.Assert("c12.fault.nothing-duplicated", seen["m0"] <= 1 && seen["m1"] <= 1)
	verifrt.Reach("c12-batching-fault")
}

// VerifC12ConcurrentAllocate: two goroutines allocate histograms with the same tag set at the same
// time (1 preemption, happens-before race check); every bucket of both must still be charged at least what it occupies.
func VerifC12ConcurrentAllocate() {
	r := vSizer(Compact)
	tags := map[string]string{"k": "v"}
	var hs [2]cachedHistogram
	var wg sync.WaitGroup
	verifrt.Explore(1)
	wg.Add(2)
	go func() {
		defer wg.Done()
		hs[0] = r.AllocateHistogram("alpha", tags, tally.ValueBuckets{1.5}).(cachedHistogram)
	}()
	go func() {
		defer wg.Done()
		hs[1] = r.AllocateHistogram("b", tags, tally.DurationBuckets{90 * time.Minute}).(cachedHistogram)
	}()
	wg.Wait()
	verifrt.StopExplore()
	v := verifrt.Int64("value")
	for i, h := range hs {
		bs := h.cachedValueBuckets
		if i == 1 {
			bs = h.cachedDurationBuckets
		}
		for _, b := range bs {
			m := b.metric.metric
			m.Value.Count = v
			m.Timestamp = 1
			m.Tags = append(append([]m3thrift.MetricTag{}, m.Tags...),
				m3thrift.MetricTag{Name: r.bucketIDTagName, Value: b.bucketID},
				m3thrift.MetricTag{Name: r.bucketTagName, Value: b.bucket})
			verifrt.Assert("c12.concurrent.bucket-keeps-its-own-user-tags", len(b.metric.metric.Tags) == 1)
			verifrt.Assert("c12.concurrent.charged-size-covers-encoded-metric", b.metric.size >= vActual(Compact, &m))
		}
	}
	verifrt.Reach("c12-concurrent-allocate")
}
