//go:build verif

package m3

import (
	"math"
	"strconv"
	"time"

	tally "github.com/uber-go/tally/v4"
	"github.com/uber-go/tally/v4/internal/cache"
	"github.com/uber-go/tally/v4/internal/verifrt"
	m3thrift "github.com/uber-go/tally/v4/m3/thrift/v2"
	"github.com/uber-go/tally/v4/thirdparty/github.com/apache/thrift/lib/go/thrift"
)

var vCommon = map[string]string{"service": "svc", "env": "test"}

// vExpect is one value the harness reported.
type vExpect struct {
	name   string
	kind   m3thrift.MetricType
	count  int64
	gauge  uint64
	timer  int64
	tags   map[string]string
	t0, t1 int64 // clock bracket around the call
	found  int
}

func vMatch(e *vExpect, m *m3thrift.Metric) bool {
	if m.Name != e.name || m.Value.MetricType != e.kind {
		return false
	}
	r := tagsEqual(m.Tags, e.tags)
	switch e.kind {
	case m3thrift.MetricType_COUNTER:
		r = verifrt.And(r, m.Value.Count == e.count)
	case m3thrift.MetricType_GAUGE:
		r = verifrt.And(r, math.Float64bits(m.Value.Gauge) == e.gauge)
	case m3thrift.MetricType_TIMER:
		r = verifrt.And(r, m.Value.Timer == e.timer)
	}
	return r
}

// vCheckDelivery: every datagram well-formed with the common tags; every expected value
// appears exactly once (each expectation has a distinct name or tag set so that the match
// is by identity), with a timestamp inside its bracket; nothing else under those names.
func vCheckDelivery(prefix string, addr string, proto Protocol, exp []*vExpect, construct int64) {
	bs := vDecode(addr, proto)
	for _, b := range bs {
		verifrt.Assert(prefix+".common-tags-on-every-batch", hasCommon(b.batch, vCommon))
		for i := range b.batch.Metrics {
			m := &b.batch.Metrics[i]
			owner := -1
			for k, e := range exp {
				if m.Name == e.name && len(m.Tags) == len(e.tags) && m.Value.MetricType == e.kind {
					owner = k
				}
			}
			if owner < 0 {
				if len(m.Name) >= 15 && m.Name[:15] == "tally.internal." {
					continue
				}
				verifrt.Assert(prefix+".no-unreported-metric", false)
				continue
			}
			e := exp[owner]
			e.found++
			verifrt.Assert(prefix+".value-kind-tags-intact", vMatch(e, m))
			verifrt.Assert(prefix+".timestamp-not-before-construction", m.Timestamp >= construct)
			verifrt.Assert(prefix+".timestamp-not-after-the-call", m.Timestamp <= e.t1)
		}
	}
	for _, e := range exp {
		verifrt.Assert(prefix+".delivered-exactly-once", e.found == 1)
	}
}

func now() int64 { return time.Now().UnixNano() }

// VerifC13Tags: two tag maps with a single tag each whose bytes are symbolic; the solver is
// free to choose them so that "k=v" reads the same for both (e.g. {a:"b=c"} and {"a=b":"c"}).
// Each conversion must return its own map's tags.
func VerifC13Tags() { c13Tags(false) }

// VerifC13TagsSameString: the same with the hash assumed collision-free on different strings, so
// that a counterexample can only be two tag maps whose "k=v" renderings are the same string - a
// collision that exists for the real hash too and therefore replays natively.
func VerifC13TagsSameString() { c13Tags(true) }

func c13Tags(injective bool) {
	if injective {
		verifrt.HashInjective()
	}
	r := &reporter{
		stringInterner: cache.NewStringInterner(),
		tagCache:       cache.NewTagCache(),
		resourcePool:   newResourcePool(thrift.NewTCompactProtocolFactory()),
	}
	// (key length, value length): every shape with 1..3 key bytes, 0..3 value bytes, at most 4 in all
	lens := [][2]int{{1, 0}, {1, 1}, {1, 2}, {1, 3}, {2, 0}, {2, 1}, {2, 2}, {3, 0}, {3, 1}}
	l1 := lens[verifrt.Choose("shape1", len(lens))]
	l2 := lens[verifrt.Choose("shape2", len(lens))]
	k1, v1 := verifrt.String("k", l1[0]), verifrt.String("v", l1[1])
	k2, v2 := verifrt.String("k", l2[0]), verifrt.String("v", l2[1])
	tags1, tags2 := map[string]string{k1: v1}, map[string]string{k2: v2}
	m1 := r.convertTags(tags1)
	m2 := r.convertTags(tags2)
	verifrt.Assert("c13.tags.first-map-own-tags", tagsEqual(m1, tags1))
	verifrt.Assert("c13.tags.second-map-own-tags", tagsEqual(m2, tags2))
	m1again := r.convertTags(tags1)
	verifrt.Assert("c13.tags.repeat-own-tags", tagsEqual(m1again, tags1))
	verifrt.EmitS("k1", k1)
	verifrt.Reach("c13-tags")
}

// VerifC13Tags2: two-entry maps (sums of hashes), no injectivity assumed beyond one string each.
func VerifC13Tags2() {
	r := &reporter{
		stringInterner: cache.NewStringInterner(),
		tagCache:       cache.NewTagCache(),
		resourcePool:   newResourcePool(thrift.NewTCompactProtocolFactory()),
	}
	a, b := verifrt.String("v", 1), verifrt.String("v", 1)
	tags1 := map[string]string{"x": a, "y": b}
	tags2 := map[string]string{"x": b, "y": a}
	m1 := r.convertTags(tags1)
	m2 := r.convertTags(tags2)
	verifrt.Assert("c13.tags2.first-map-own-tags", tagsEqual(m1, tags1))
	verifrt.Assert("c13.tags2.second-map-own-tags", tagsEqual(m2, tags2))
	verifrt.Reach("c13-tags2")
}

// c13History: a history over every kind of metric with symbolic values, flushes at chosen
// positions, then Close; everything must arrive exactly once and intact.
func c13History(proto Protocol, queue int, maxPacket int32) {
	t0 := now()
	r, addr := vNew(proto, queue, maxPacket, nil)
	tags := map[string]string{"k": "v"}
	c := r.AllocateCounter("c", tags)
	// the empty string is a legal metric name and must travel like any other
	// (chosen in the Binary history only: with Compact every extra choice doubles 1200 paths)
	gname := "g"
	if proto == Binary {
		gname = []string{"g", ""}[verifrt.Choose("gauge-name", 2)]
	}
	g := r.AllocateGauge(gname, nil)
	tm := r.AllocateTimer("t", map[string]string{"a": "1", "b": "2"})
	hv := r.AllocateHistogram("hv", tags, tally.ValueBuckets{1, 2})
	hd := r.AllocateHistogram("hd", nil, tally.DurationBuckets{time.Second, 2 * time.Second})
	var exp []*vExpect
	add := func(e *vExpect, call func()) {
		call()
		e.t1 = now()
		exp = append(exp, e)
	}
	maybeFlush := func(k string) {
		if verifrt.Choose("flush-"+k, 2) == 1 {
			r.Flush()
		}
	}
	// integer values: the whole int64 range with the fixed-width Binary encoding; with Compact
	// only [0,64) - the variable-length encoding of the full range is C16's subject and forks
	// ten ways per value here
	small := func(v int64) {
		if proto == Compact {
			verifrt.Assume(verifrt.And(v >= 0, v < 64))
		}
	}
	x := verifrt.Int64("count")
	small(x)
	add(&vExpect{name: "c", kind: m3thrift.MetricType_COUNTER, count: x, tags: tags}, func() { c.ReportCount(x) })
	maybeFlush("1")
	f := verifrt.Float64("gauge")
	add(&vExpect{name: gname, kind: m3thrift.MetricType_GAUGE, gauge: math.Float64bits(f), tags: map[string]string{}}, func() { g.ReportGauge(f) })
	d := verifrt.Int64("timer")
	small(d)
	add(&vExpect{name: "t", kind: m3thrift.MetricType_TIMER, timer: d, tags: map[string]string{"a": "1", "b": "2"}}, func() { tm.ReportTimer(time.Duration(d)) })
	maybeFlush("2")
	s1, s2, s3 := verifrt.Int64("samples"), verifrt.Int64("samples"), verifrt.Int64("samples")
	small(s1)
	small(s2)
	small(s3)
	add(&vExpect{name: "hv", kind: m3thrift.MetricType_COUNTER, count: s1,
		tags: map[string]string{"k": "v", "bucketid": "0001", "bucket": "1.000000-2.000000"}},
		func() { hv.ValueBucket(1, 2).ReportSamples(s1) })
	add(&vExpect{name: "hv", kind: m3thrift.MetricType_COUNTER, count: s2,
		tags: map[string]string{"k": "v", "bucketid": "0002", "bucket": "2.000000-infinity", "x": ""}},
		func() { hv.ValueBucket(2, math.MaxFloat64).ReportSamples(s2) })
	exp[len(exp)-1].tags = map[string]string{"k": "v", "bucketid": "0002", "bucket": "2.000000-infinity"}
	maybeFlush("3")
	add(&vExpect{name: "hd", kind: m3thrift.MetricType_COUNTER, count: s3,
		tags: map[string]string{"bucketid": "0000", "bucket": "-infinity-1s"}},
		func() { hd.DurationBucket(time.Duration(math.MinInt64), time.Second).ReportSamples(s3) })
	verifrt.Assert("c13.history.close-ok", r.Close() == nil)
	// the two hv samples have the same name, kind and tag count: tell them apart by bucket id
	bs := vDecode(addr, proto)
	seen := map[string]int{}
	for _, b := range bs {
		verifrt.Assert("c13.history.common-tags-on-every-batch", hasCommon(b.batch, vCommon))
		for i := range b.batch.Metrics {
			m := &b.batch.Metrics[i]
			if len(m.Name) >= 15 && m.Name[:15] == "tally.internal." {
				continue
			}
			var e *vExpect
			for _, cand := range exp {
				if cand.name != m.Name {
					continue
				}
				if m.Name == "hv" {
					id := ""
					for _, t := range m.Tags {
						if t.Name == "bucketid" {
							id = t.Value
						}
					}
					if cand.tags["bucketid"] != id {
						continue
					}
				}
				e = cand
			}
			if e == nil {
				verifrt.Assert("c13.history.no-unreported-metric", false)
				continue
			}
			e.found++
			seen[m.Name]++
			verifrt.Assert("c13.history.value-kind-tags-intact", vMatch(e, m))
			verifrt.Assert("c13.history.timestamp-not-before-construction", m.Timestamp >= t0)
			verifrt.Assert("c13.history.timestamp-not-after-the-call", m.Timestamp <= e.t1)
		}
	}
	for _, e := range exp {
		verifrt.Assert("c13.history.delivered-exactly-once", e.found == 1)
	}
	verifrt.Emit("count", x)
	verifrt.Reach("c13-history")
}

func VerifC13HistoryCompact() { c13History(Compact, 16, 1440) }
func VerifC13HistoryBinary()  { c13History(Binary, 16, 1440) }
func VerifC13HistorySmall()   { c13History(Compact, 1, 200) }

// VerifC13SharedHandles: values reported through one handle from two goroutines each arrive
// exactly once and intact (every schedule with at most 1 preemption here, 2 in the C14 check; see c14.go).
func VerifC13SharedCounter() { c14Prefix = "c13.concurrent"; c14Run(Binary, 4, 1) }
func VerifC13SharedBucket()  { c14Prefix = "c13.concurrent"; c14Run(Binary, 3, 1) }

// VerifC13WideTags: a metric with more tags than the pooled tag slices were sized for (11), then
// further tag sets; every metric must still be sent with exactly its own tags.
func VerifC13WideTags() {
	t0 := now()
	r, addr := vNew(Compact, 16, 4000, nil)
	wide := map[string]string{}
	for i := 0; i < 11; i++ {
		wide[string(rune('a'+i))+"k"] = string(rune('a'+i)) + "v"
	}
	x, y, z := verifrt.Int64("v"), verifrt.Int64("v"), verifrt.Int64("v")
	verifrt.Assume(verifrt.And(verifrt.And(x >= 0, x < 64), verifrt.And(verifrt.And(y >= 0, y < 64), verifrt.And(z >= 0, z < 64))))
	c1 := r.AllocateCounter("wide", wide)
	c2 := r.AllocateCounter("narrow", map[string]string{"zone": "z1"})
	c3 := r.AllocateCounter("other", map[string]string{"p": "q", "r": "s"})
	c1.ReportCount(x)
	c2.ReportCount(y)
	c3.ReportCount(z)
	t1 := now()
	verifrt.Assert("c13.wide.close-ok", r.Close() == nil)
	vCheckDelivery("c13.wide", addr, Compact, []*vExpect{
		{name: "wide", kind: m3thrift.MetricType_COUNTER, count: x, tags: wide, t1: t1},
		{name: "narrow", kind: m3thrift.MetricType_COUNTER, count: y, tags: map[string]string{"zone": "z1"}, t1: t1},
		{name: "other", kind: m3thrift.MetricType_COUNTER, count: z, tags: map[string]string{"p": "q", "r": "s"}, t1: t1},
	}, t0)
	verifrt.Reach("c13-wide")
}

// VerifC13TwoDestinations: two collectors, the send to the second one fails for one batch.  The
// healthy first collector must still receive every value exactly once (nothing re-sent to it).
func VerifC13TwoDestinations() {
	a, b := verifrt.NewUDPSink(), verifrt.NewUDPSink()
	rr, err := NewReporter(Options{HostPorts: []string{a, b}, Service: "svc", Env: "test", Protocol: Binary, MaxQueueSize: 8, MaxPacketSizeBytes: 1440})
	verifrt.Assert("c13.two.constructor-ok", err == nil)
	if err != nil {
		verifrt.Assume(false)
	}
	r := rr.(*reporter)
	c := r.AllocateCounter("c", nil)
	v1, v2 := verifrt.Int64("v"), verifrt.Int64("v")
	verifrt.Assume(v1 != v2)
	verifrt.SinkFault(b, true)
	c.ReportCount(v1)
	r.metCh <- sizedMetric{} // flush marker: this batch meets the failing destination
	for r.numBatches.Load() < 1 {
		time.Sleep(time.Millisecond)
	}
	verifrt.SinkFault(b, false)
	c.ReportCount(v2)
	verifrt.Assert("c13.two.close-ok", r.Close() == nil)
	n1, n2 := 0, 0
	for _, bt := range vDecode(a, Binary) {
		for _, m := range bt.batch.Metrics {
			if m.Name == "c" {
				n1 += int(verifrt.IteInt64(m.Value.Count == v1, 1, 0))
				n2 += int(verifrt.IteInt64(m.Value.Count == v2, 1, 0))
			}
		}
	}
	verifrt.Assert("c13.two.healthy-destination-gets-each-value-exactly-once", verifrt.And(n1 == 1, n2 == 1))
	verifrt.Reach("c13-two-destinations")
}

// VerifC13TimestampSchedule: the timestamp a value carries is the reporter's clock reading at
// the Report call, not a later one.  The clock goroutine runs (symbolic non-decreasing
// readings) and every schedule with at most 2 preemptions of {caller, batching goroutine, clock
// goroutine} is explored: the value may sit in the queue across a clock update.  Binary
// protocol (fixed-width timestamps: the symbolic readings do not fork the encoder).
func VerifC13TimestampSchedule() {
	t0 := now()
	r, addr := vLight(Binary, 4, 1440, true)
	r.now.Store(t0)
	c := r.AllocateCounter("c", nil)
	verifrt.ExploreOnly("/m3")
	verifrt.Explore(2)
	c.ReportCount(7)
	t1 := now()
	err := r.Close()
	verifrt.StopExplore()
	verifrt.Assert("c13.timestamp.close-ok", err == nil)
	found := 0
	for _, b := range vDecode(addr, Binary) {
		for i := range b.batch.Metrics {
			m := &b.batch.Metrics[i]
			if m.Name != "c" {
				continue
			}
			found++
			verifrt.Assert("c13.timestamp.not-before-construction", m.Timestamp >= t0)
			verifrt.Assert("c13.timestamp.not-after-the-call", m.Timestamp <= t1)
		}
	}
	verifrt.Assert("c13.timestamp.delivered-once", found == 1)
	verifrt.Reach("c13-timestamp-schedule")
}

// VerifC13LongAllocationHistory: a handle keeps its tags however many other tag sets the
// reporter sees afterwards.  One counter is allocated first; then N gauges with N distinct tag
// sets, N = 2^4, 2^10, 2^13+2 (twice the size of the reporter's pools; concrete history, hashes of concrete strings computed by
// the real function); then the first handle reports a symbolic value, which must arrive with its
// own tags.  The history is concrete - the engine has no symbolic-length collections.
func VerifC13LongAllocationHistory() {
	verifrt.ConcreteHashes()
	n := []int{1 << 4, 1 << 10, 1<<13 + 2}[verifrt.Choose("allocations", 3)]
	r, addr := vLight(Binary, 8, 1440, false)
	// the tag-slice pool of the size the real constructor uses (whatever a change does with
	// recycled slices then behaves as in production, and does so natively for every map order)
	tp := tally.NewObjectPool(DefaultMaxQueueSize)
	tp.Init(func() interface{} { return make([]m3thrift.MetricTag, 0, batchPoolSize) })
	r.resourcePool.metricTagSlicePool = tp
	first := r.AllocateCounter("first", map[string]string{"id": "first", "zone": "a"})
	for i := 0; i < n; i++ {
		r.AllocateGauge("g", map[string]string{"id": "second-" + strconv.Itoa(i)})
	}
	later := r.AllocateCounter("later", map[string]string{"id": "later"})
	v := verifrt.Int64("count")
	first.ReportCount(v)
	later.ReportCount(1)
	verifrt.Assert("c13.long-history.close-ok", r.Close() == nil)
	found := 0
	for _, b := range vDecode(addr, Binary) {
		for i := range b.batch.Metrics {
			m := &b.batch.Metrics[i]
			switch m.Name {
			case "first":
				found++
				ok := len(m.Tags) == 2
				if ok {
					id, zone := "", ""
					for _, t := range m.Tags {
						if t.Name == "id" {
							id = t.Value
						}
						if t.Name == "zone" {
							zone = t.Value
						}
					}
					ok = id == "first" && zone == "a"
				}
				verifrt.Assert("c13.long-history.early-handle-keeps-its-tags", ok)
				verifrt.Assert("c13.long-history.value-intact", m.Value.Count == v)
			case "later":
				verifrt.Assert("c13.long-history.late-handle-has-its-tags", len(m.Tags) == 1 && m.Tags[0].Name == "id" && m.Tags[0].Value == "later")
			}
		}
	}
	verifrt.Assert("c13.long-history.delivered-once", found == 1)
	verifrt.Reach("c13-long-history")
}
