//go:build verif

package m3

import (
	"sync"
	"time"

	tally "github.com/uber-go/tally/v4"
	"github.com/uber-go/tally/v4/internal/verifrt"
)

// c14Run: producers, a Flush caller and one or two Close callers race on a reporter with a
// one-slot queue; every schedule within the preemption bound.  Implicit assertions: no
// panic (send on closed channel, close of closed channel), no deadlock, no data race.
var c14Prefix = "c14"

func c14Run(proto Protocol, variant int, preempt int) {
	queue := 1
	if variant == 1 {
		queue = 8 // Flush enqueues six items of its own; the handshake, not a full queue, is the subject here
	}
	if variant == 7 {
		queue = 16 // room for both Flush calls' items: their markers can end up next to each other
	}
	r, addr := vLight(proto, queue, 1440, variant == 5)
	c := r.AllocateCounter("c", map[string]string{"k": "v"})
	h := r.AllocateHistogram("h", nil, tally.ValueBuckets{1})
	b := h.ValueBucket(0, 1)
	// symbolic values (Binary encodes them in fixed width, so they do not fork the schedules)
	v3, v4 := int64(3), int64(4)
	if proto == Binary {
		v3, v4 = verifrt.Int64("value"), verifrt.Int64("value")
		verifrt.Assume(v3 != v4)
	}
	var wg sync.WaitGroup
	var err1, err2 error
	closes := 0
	// preemption points: synchronisation done by the reporter itself (m3/reporter.go) and by the
	// harness; the transport and protocol objects below it are used by the batching goroutine only
	verifrt.ExploreOnly("/m3")
	verifrt.Explore(preempt)
	switch variant {
	case 0: // producer vs Close
		wg.Add(2)
		go func() { defer wg.Done(); c.ReportCount(1); c.ReportCount(2) }()
		go func() { defer wg.Done(); err1 = r.Close(); closes++ }()
	case 1: // Flush (which also reports the reporter's internal metrics) vs Close
		c.ReportCount(1)
		wg.Add(2)
		go func() { defer wg.Done(); r.Flush() }()
		go func() { defer wg.Done(); err1 = r.Close(); closes++ }()
	case 2: // two Close callers and a producer
		wg.Add(3)
		go func() { defer wg.Done(); b.ReportSamples(3) }()
		go func() { defer wg.Done(); err1 = r.Close() }()
		go func() { defer wg.Done(); err2 = r.Close() }()
	case 3: // one shared bucket handle used by two goroutines (no Close racing)
		wg.Add(2)
		go func() { defer wg.Done(); b.ReportSamples(v3) }()
		go func() { defer wg.Done(); b.ReportSamples(v4) }()
	case 4: // one shared counter handle used by two goroutines
		wg.Add(2)
		go func() { defer wg.Done(); c.ReportCount(v3) }()
		go func() { defer wg.Done(); c.ReportCount(v4) }()
	case 5: // the clock goroutine (one tick) must stop at Close
		wg.Add(1)
		go func() { defer wg.Done(); err1 = r.Close(); closes++ }()
	case 7: // two Flush callers at the same time (each must return; Close afterwards must return)
		wg.Add(2)
		go func() { defer wg.Done(); r.Flush() }()
		go func() { defer wg.Done(); r.Flush() }()
	case 6: // the destination refuses every datagram while producers keep the one-slot queue full
		verifrt.SinkFault(addr, true)
		wg.Add(1)
		go func() { defer wg.Done(); c.ReportCount(1); r.Flush(); c.ReportCount(2) }()
	}
	wg.Wait()
	verifrt.StopExplore()
	if variant == 6 || variant == 7 {
		err1 = r.Close() // after the producer is done; must return although every send failed
	}
	switch variant {
	case 0, 1, 5, 6, 7:
		verifrt.Assert("c14.close-returns-nil", err1 == nil)
	case 2:
		verifrt.Assert("c14.exactly-one-close-succeeds", (err1 == nil) != (err2 == nil))
	case 3, 4:
		verifrt.Assert("c14.close-returns-nil", r.Close() == nil)
	}
	// after Close: a second Close is an error, every other call is a no-op
	n := verifrt.SinkDatagrams(addr)
	verifrt.Assert("c14.second-close-is-an-error", r.Close() != nil)
	verifrt.Assert("c14.third-close-is-an-error", r.Close() != nil)
	c.ReportCount(9)
	b.ReportSamples(9)
	r.Flush()
	r.AllocateGauge("late", nil).ReportGauge(1)
	verifrt.WaitIdle()
	verifrt.Assert("c14.calls-after-close-emit-nothing", verifrt.SinkDatagrams(addr) == n)
	verifrt.Assert("c14.no-goroutine-left-after-close", verifrt.LiveThreads() == 0)
	if variant == 3 || variant == 4 {
		// both values arrived intact
		got3, got4 := 0, 0
		for _, bt := range vDecode(addr, proto) {
			for _, m := range bt.batch.Metrics {
				if m.Name == "h" || m.Name == "c" {
					got3 += int(verifrt.IteInt64(m.Value.Count == v3, 1, 0))
					got4 += int(verifrt.IteInt64(m.Value.Count == v4, 1, 0))
				}
			}
		}
		verifrt.Assert(c14Prefix+".shared-handle-values-intact", verifrt.And(got3 == 1, got4 == 1))
	}
	verifrt.Reach("c14-end")
}

func VerifC14ProducerClose()  { c14Run(Compact, 0, 1) }
func VerifC14ProducerClose2() { c14Run(Compact, 0, 2) }
func VerifC14FlushClose()     { c14Run(Compact, 1, 1) }
func VerifC14TwoClosers()     { c14Run(Compact, 2, 1) }
func VerifC14SharedBucket()   { c14Run(Binary, 3, 2) }
func VerifC14SharedCounter()  { c14Run(Binary, 4, 2) }
func VerifC14ClockStops()     { c14Run(Compact, 5, 1) }
func VerifC14SendErrors()     { c14Run(Compact, 6, 1) }
func VerifC14TwoFlushes()     { c14Run(Compact, 7, 1) }
func VerifC14ProducerClose3() { c14Run(Binary, 0, 3) }
func VerifC14FlushClose3()    { c14Run(Binary, 1, 3) }

// VerifC14AfterClose: sequential - after Close every call is a no-op: reports on old handles,
// Flush, and allocations of every kind, with tag sets the reporter has and has not seen before.
func VerifC14AfterClose() {
	r, addr := vLight(Compact, 4, 1440, false)
	c := r.AllocateCounter("c", map[string]string{"k": "v"})
	c.ReportCount(1)
	verifrt.Assert("c14.after-close.close-returns-nil", r.Close() == nil)
	n := verifrt.SinkDatagrams(addr)
	c.ReportCount(2)
	r.Flush()
	r.AllocateCounter("late", map[string]string{"k": "v"}).ReportCount(1)
	r.AllocateCounter("late", map[string]string{"z": "1"}).ReportCount(1)
	r.AllocateGauge("late", map[string]string{"z": "5"}).ReportGauge(1)
	r.AllocateTimer("late", map[string]string{"z": "2", "y": "3"}).ReportTimer(time.Second)
	r.AllocateHistogram("late", map[string]string{"z": "4"}, tally.ValueBuckets{1}).ValueBucket(0, 1).ReportSamples(1)
	r.AllocateHistogram("late", nil, tally.DurationBuckets{time.Second}).DurationBucket(0, time.Second).ReportSamples(1)
	verifrt.WaitIdle()
	verifrt.Assert("c14.after-close.calls-after-close-emit-nothing", verifrt.SinkDatagrams(addr) == n)
	verifrt.Assert("c14.after-close.no-goroutine-left", verifrt.LiveThreads() == 0)
	verifrt.Assert("c14.after-close.second-close-is-an-error", r.Close() != nil)
	verifrt.Reach("c14-after-close")
}

// VerifC14ConcurrentAllocate: two goroutines allocate metrics that share a name and a tag the
// reporter has not seen before (the interner and the tag cache are filled by the first use), at
// the same time; both calls return, both handles work, Close returns.  Every schedule with at
// most 1 preemption at the reporter's and its caches' synchronisation; race check.
func VerifC14ConcurrentAllocate() {
	r, addr := vLight(Binary, 4, 1440, false)
	var hs [2]tally.CachedCount
	var wg sync.WaitGroup
	verifrt.ExploreOnly("/m3", "/internal/cache")
	verifrt.Explore(1)
	wg.Add(2)
	for i := 0; i < 2; i++ {
		i := i
		go func() {
			defer wg.Done()
			hs[i] = r.AllocateCounter("fresh", map[string]string{"newkey": "newvalue"})
		}()
	}
	wg.Wait()
	verifrt.StopExplore()
	// a third allocation after the race, then use of all handles
	third := r.AllocateCounter("fresh", map[string]string{"newkey": "newvalue"})
	hs[0].ReportCount(1)
	hs[1].ReportCount(2)
	third.ReportCount(4)
	verifrt.Assert("c14.concurrent-allocate.close-returns-nil", r.Close() == nil)
	var sum int64
	for _, bt := range vDecode(addr, Binary) {
		for _, m := range bt.batch.Metrics {
			if m.Name == "fresh" {
				sum += m.Value.Count
				verifrt.Assert("c14.concurrent-allocate.tags-intact", len(m.Tags) == 1 && m.Tags[0].Name == "newkey" && m.Tags[0].Value == "newvalue")
			}
		}
	}
	verifrt.Assert("c14.concurrent-allocate.all-handles-work", sum == 7)
	verifrt.Assert("c14.concurrent-allocate.no-goroutine-left", verifrt.LiveThreads() == 0)
	verifrt.Reach("c14-concurrent-allocate")
}
