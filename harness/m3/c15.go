//go:build verif

package m3

import (
	"strings"

	"github.com/uber-go/tally/v4/internal/verifrt"
)

// VerifC15ReporterOversize: the reporter-level clause of C15.  One metric is too large for a
// datagram (a 66 KB tag value): its batch is refused by the transport.  The reporter must keep
// emitting: the batch after it arrives as exactly one well-formed message that holds exactly the
// later metric - nothing of the refused batch is sent.
func VerifC15ReporterOversize() {
	proto := Compact
	if verifrt.Choose("binary", 2) == 1 {
		proto = Binary
	}
	r, addr := vNew(proto, 8, 32768, nil)
	big := r.AllocateCounter("big", map[string]string{"blob": strings.Repeat("x", 66000)})
	ok := r.AllocateCounter("ok", map[string]string{"k": "v"})
	v := verifrt.Int64("v")
	verifrt.Assume(verifrt.And(v >= 0, v < 64))
	big.ReportCount(1)
	r.Flush()
	if verifrt.Choose("twice", 2) == 1 {
		big.ReportCount(2)
		r.Flush()
	}
	ok.ReportCount(v)
	verifrt.Assert("c15.reporter.close-ok", r.Close() == nil)
	seenOK, seenBig := 0, 0
	for _, b := range vDecode(addr, proto) { // asserts: every datagram is exactly one well-formed message
		for _, m := range b.batch.Metrics {
			if m.Name == "ok" {
				seenOK++
				verifrt.Assert("c15.reporter.later-metric-intact", verifrt.And(m.Value.Count == v, tagsEqual(m.Tags, map[string]string{"k": "v"})))
			}
			if m.Name == "big" {
				seenBig++
			}
		}
	}
	verifrt.Assert("c15.reporter.later-batch-still-emitted", seenOK == 1)
	verifrt.Assert("c15.reporter.nothing-of-the-refused-batch-is-sent", seenBig == 0)
	verifrt.Reach("c15-reporter-oversize")
}
