//go:build verif

package m3

import (
	"math"
	"time"

	tally "github.com/uber-go/tally/v4"
	"github.com/uber-go/tally/v4/internal/cache"
	"github.com/uber-go/tally/v4/internal/verifrt"
	customtransport "github.com/uber-go/tally/v4/m3/customtransports"
	m3thrift "github.com/uber-go/tally/v4/m3/thrift/v2"
	"github.com/uber-go/tally/v4/m3/thriftudp"
	"github.com/uber-go/tally/v4/thirdparty/github.com/apache/thrift/lib/go/thrift"
)

func vFactory(proto Protocol) thrift.TProtocolFactory {
	if proto == Compact {
		return thrift.NewTCompactProtocolFactory()
	}
	return thrift.NewTBinaryProtocolFactoryDefault()
}

// vNew builds a reporter through the real constructor against a sink.
func vNew(proto Protocol, queue int, maxPacket int32, common map[string]string) (*reporter, string) {
	addr := verifrt.NewUDPSink()
	r, err := NewReporter(Options{
		HostPorts:          []string{addr},
		Service:            "svc",
		Env:                "test",
		CommonTags:         common,
		Protocol:           proto,
		MaxQueueSize:       queue,
		MaxPacketSizeBytes: maxPacket,
	})
	verifrt.Assert("m3.constructor-ok", err == nil)
	if err != nil {
		verifrt.Assume(false)
	}
	return r.(*reporter), addr
}

// vLight builds a reporter directly (no 4096-slot pools, no internal metrics), wired to the
// real thrift client and UDP transport over a sink, and starts the real batching goroutine
// (and the clock goroutine if wanted) exactly as the tail of NewReporter does.  Used by the
// schedule-exploring harnesses, where the constructor's cost would be paid on every path.
func vLight(proto Protocol, queue int, maxPacket int32, withClock bool) (*reporter, string) {
	addr := verifrt.NewUDPSink()
	trans, err := thriftudp.NewTUDPClientTransport(addr, "")
	verifrt.Assert("m3.dial-ok", err == nil)
	fac := vFactory(proto)
	mk := func(n int, f func() interface{}) *tally.ObjectPool {
		p := tally.NewObjectPool(n)
		p.Init(f)
		return p
	}
	pool := &resourcePool{
		metricSlicePool:    mk(2, func() interface{} { return make([]m3thrift.Metric, 0, batchPoolSize) }),
		metricTagSlicePool: mk(8, func() interface{} { return make([]m3thrift.MetricTag, 0, batchPoolSize) }),
		protoPool:          mk(2, func() interface{} { return fac.GetProtocol(&customtransport.TCalcTransport{}) }),
	}
	p := pool.getProto()
	tags := []m3thrift.MetricTag{{Name: "service", Value: "svc"}, {Name: "env", Value: "test"}}
	r := &reporter{
		bucketIDTagName: DefaultHistogramBucketIDName,
		bucketTagName:   DefaultHistogramBucketName,
		bucketValFmt:    "%.6f",
		calc:            p.Transport().(*customtransport.TCalcTransport),
		calcProto:       p,
		client:          m3thrift.NewM3ClientFactory(trans, fac),
		commonTags:      tags,
		donech:          make(chan struct{}),
		freeBytes:       maxPacket - 100,
		metCh:           make(chan sizedMetric, queue),
		resourcePool:    pool,
		stringInterner:  cache.NewStringInterner(),
		tagCache:        cache.NewTagCache(),
	}
	r.now.Store(1234567) // a concrete clock: the timestamp's variable-length encoding must not fork the schedules
	r.buckets = tally.BucketPairs(tally.ValueBuckets{0, 2, 4})
	r.batchSizeHistogram = r.AllocateHistogram("tally.internal.batch-size", nil, tally.ValueBuckets{0, 2, 4})
	r.numBatchesCounter = r.AllocateCounter("tally.internal.num-batches", nil)
	r.numMetricsCounter = r.AllocateCounter("tally.internal.num-metrics", nil)
	r.numWriteErrorsCounter = r.AllocateCounter("tally.internal.num-write-errors", nil)
	r.numTagCacheCounter = r.AllocateCounter("tally.internal.num-tag-cache", nil)
	r.wg.Add(1)
	go func() {
		defer r.wg.Done()
		r.process()
	}()
	if withClock {
		r.wg.Add(1)
		go func() {
			defer r.wg.Done()
			r.timeLoop()
		}()
	}
	return r, addr
}

type nopHistogram struct{}

func (nopHistogram) ValueBucket(lo, hi float64) tally.CachedHistogramBucket { return noopMetric{} }
func (nopHistogram) DurationBucket(lo, hi time.Duration) tally.CachedHistogramBucket {
	return noopMetric{}
}

type vBatch struct {
	seq   int32
	batch m3thrift.MetricBatch
}

// vDecode decodes every datagram of the sink as exactly one one-way
// emitMetricBatchV2 message.
func vDecode(addr string, proto Protocol) []vBatch {
	var out []vBatch
	n := verifrt.SinkDatagrams(addr)
	for i := 0; i < n; i++ {
		data := []byte(verifrt.SinkDatagram(addr, i))
		buf := thrift.NewTMemoryBuffer()
		buf.Write(data)
		var p thrift.TProtocol
		if proto == Compact {
			p = thrift.NewTCompactProtocolFactory().GetProtocol(buf)
		} else {
			p = thrift.NewTBinaryProtocolFactoryDefault().GetProtocol(buf)
		}
		name, typ, seq, err := p.ReadMessageBegin()
		verifrt.Assert("m3.datagram.message-begin", err == nil)
		verifrt.Assert("m3.datagram.method", name == "emitMetricBatchV2")
		verifrt.Assert("m3.datagram.oneway", typ == thrift.ONEWAY)
		var args m3thrift.M3EmitMetricBatchV2Args
		err = args.Read(p)
		verifrt.Assert("m3.datagram.args-decode", err == nil)
		err = p.ReadMessageEnd()
		verifrt.Assert("m3.datagram.message-end", err == nil)
		verifrt.Assert("m3.datagram.exactly-one-message", buf.Len() == 0)
		out = append(out, vBatch{seq, args.Batch})
	}
	return out
}

func tagsEqual(got []m3thrift.MetricTag, want map[string]string) bool {
	if len(got) != len(want) {
		return false
	}
	r := true
	for _, t := range got {
		v, ok := want[t.Name]
		if !ok {
			return false
		}
		r = verifrt.And(r, verifrt.EqStr(v, t.Value))
	}
	return r
}

func hasCommon(b m3thrift.MetricBatch, want map[string]string) bool {
	return tagsEqual(b.CommonTags, want)
}

var _ = math.MaxInt64
