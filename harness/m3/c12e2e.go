//go:build verif

package m3

import (
	"github.com/uber-go/tally/v4/internal/verifrt"
	m3thrift "github.com/uber-go/tally/v4/m3/thrift/v2"
)

// VerifC12EndToEnd: the bound itself, end to end, for a packet limit that holds exactly six
// worst-case counters: one handle reports a small value first and then arbitrary values; every
// datagram stays within MaxPacketSizeBytes and every value arrives once.  (This file does not look
// at the reporter's private size fields, so it survives changes of their representation.)
func VerifC12EndToEnd() {
	proto := Compact
	if verifrt.Choose("binary", 2) == 1 {
		proto = Binary
	}
	probe, _ := vNew(proto, 4, 4000, nil)
	worst := probe.calculateSize(probe.newMetric("c", nil, counterType))
	limit := probe.overheadBytes + 6*worst
	verifrt.Assert("c12.e2e.probe-close", probe.Close() == nil)

	r, addr := vNew(proto, 8, limit, nil)
	c := r.AllocateCounter("c", nil)
	c.ReportCount(1) // a first use with a narrow value must not make later wide values cheaper
	vals := []int64{1}
	for i := 0; i < 7; i++ {
		v := verifrt.Int64("v")
		if i > 0 {
			// the later values are wide ones (10-byte varints); the first is arbitrary
			verifrt.Assume(verifrt.Or(v >= 1<<62, v < -(1<<62)))
		}
		vals = append(vals, v)
		c.ReportCount(v)
	}
	verifrt.Assert("c12.e2e.close-ok", r.Close() == nil)
	n := verifrt.SinkDatagrams(addr)
	verifrt.Emit("limit", int64(limit))
	for i := 0; i < n; i++ {
		verifrt.Emit("datagram-bytes", int64(len(verifrt.SinkDatagram(addr, i))))
		verifrt.Assert("c12.e2e.datagram-within-max-packet-size", len(verifrt.SinkDatagram(addr, i)) <= int(limit))
	}
	next := 0
	for _, b := range vDecode(addr, proto) {
		for _, m := range b.batch.Metrics {
			if m.Name != "c" {
				continue
			}
			verifrt.Assert("c12.e2e.values-in-order-none-lost", next < len(vals) && m.Value.MetricType == m3thrift.MetricType_COUNTER && m.Value.Count == vals[next])
			next++
		}
	}
	verifrt.Assert("c12.e2e.every-value-arrived", next == len(vals))
	verifrt.Reach("c12-e2e")
}

// VerifC12ExactFit: a metric whose charged size is anything up to freeBytes - the exact fit
// included - fits on its own and must be sent (name length chosen by the solver).
func VerifC12ExactFit() {
	verifrt.AbstractBuffers()
	r, addr := vLight(Compact, 4, 400, false)
	name := verifrt.OpaqueString("name", 1, 600)
	probe := r.newMetric(name, nil, counterType)
	verifrt.Assume(r.calculateSize(probe) <= r.freeBytes) // fits on its own
	c := r.AllocateCounter(name, nil)
	c.ReportCount(verifrt.Int64("v"))
	verifrt.Assert("c12.exact-fit.close-ok", r.Close() == nil)
	verifrt.Assert("c12.exact-fit.metric-that-fits-is-sent", verifrt.SinkDatagrams(addr) == 1)
	verifrt.Reach("c12-exact-fit")
}
