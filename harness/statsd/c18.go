//go:build verif

package statsd

import (
	"fmt"
	"math"
	"strconv"
	"sync"
	"time"

	cactus "github.com/cactus/go-statsd-client/v5/statsd"
	tally "github.com/uber-go/tally/v4"
	"github.com/uber-go/tally/v4/internal/verifrt"
)

type vStatCall struct {
	op    string
	name  string
	i     int64
	rate  float32
	ntags int
}

// vStatter records every call made on the client; at the explorer's choice the client
// accepts the value but reports an error (a UDP client does that for a send that failed after
// the datagram was handed to the kernel): still exactly one call per value.
type vStatter struct {
	calls []vStatCall
	fail  bool
}

var errClient = fmt.Errorf("client error")

func (s *vStatter) rec(op, name string, v int64, rate float32, tags []cactus.Tag) error {
	s.calls = append(s.calls, vStatCall{op, name, v, rate, len(tags)})
	if s.fail {
		return errClient
	}
	return nil
}
func (s *vStatter) Inc(n string, v int64, r float32, t ...cactus.Tag) error {
	return s.rec("Inc", n, v, r, t)
}
func (s *vStatter) Dec(n string, v int64, r float32, t ...cactus.Tag) error {
	return s.rec("Dec", n, v, r, t)
}
func (s *vStatter) Gauge(n string, v int64, r float32, t ...cactus.Tag) error {
	return s.rec("Gauge", n, v, r, t)
}
func (s *vStatter) GaugeDelta(n string, v int64, r float32, t ...cactus.Tag) error {
	return s.rec("GaugeDelta", n, v, r, t)
}
func (s *vStatter) Timing(n string, v int64, r float32, t ...cactus.Tag) error {
	return s.rec("Timing", n, v, r, t)
}
func (s *vStatter) TimingDuration(n string, d time.Duration, r float32, t ...cactus.Tag) error {
	return s.rec("TimingDuration", n, int64(d), r, t)
}
func (s *vStatter) Set(n string, v string, r float32, t ...cactus.Tag) error {
	return s.rec("Set", n, 0, r, t)
}
func (s *vStatter) SetInt(n string, v int64, r float32, t ...cactus.Tag) error {
	return s.rec("SetInt", n, v, r, t)
}
func (s *vStatter) Raw(n string, v string, r float32, t ...cactus.Tag) error {
	return s.rec("Raw", n, 0, r, t)
}
func (s *vStatter) NewSubStatter(string) cactus.SubStatter { return nil }
func (s *vStatter) SetPrefix(string)                       {}
func (s *vStatter) Close() error                           { return nil }

// reference rendering of a bound (the property's own wording: open ends as
// -infinity / infinity, value bounds with the configured precision, durations
// in Go duration syntax).  The rendering of a symbolic number is an
// uninterpreted token under the engine.
func refValueBound(x float64, prec uint) string {
	if x == math.MaxFloat64 {
		return "infinity"
	}
	if x == -math.MaxFloat64 {
		return "-infinity"
	}
	return fmt.Sprintf("%."+strconv.Itoa(int(prec))+"f", x)
}

func refDurationBound(d time.Duration) string {
	if d == time.Duration(math.MaxInt64) {
		return "infinity"
	}
	if d == time.Duration(math.MinInt64) {
		return "-infinity"
	}
	return d.String()
}

func c18Rate() (opt float32, want float32) {
	opt = math.Float32frombits(uint32(verifrt.Int32("rate")))
	verifrt.Assume(verifrt.And(opt >= 0, opt <= 1)) // (0,1] or unset (0)
	want = opt
	if opt == 0 {
		want = 1
	}
	return
}

var c18Precisions = []uint{0, 1, 2, 3, 6, 9, 12}

func c18Setup() (*vStatter, tally.StatsReporter, float32, uint, string, map[string]string) {
	st := &vStatter{fail: verifrt.Choose("client-error", 2) == 1}
	opt, want := c18Rate()
	prec := c18Precisions[verifrt.Choose("prec", len(c18Precisions))]
	r := NewReporter(st, Options{SampleRate: opt, HistogramBucketNamePrecision: prec})
	if prec == 0 {
		prec = 6
	}
	name := verifrt.String("name", verifrt.Choose("namelen", 3))
	tags := map[string]string{verifrt.String("tk", 1): verifrt.String("tv", 1)}
	return st, r, want, prec, name, tags
}

func c18One(st *vStatter, op string, name string, v int64, want float32) {
	verifrt.Assert("c18.exactly-one-client-call", len(st.calls) == 1)
	if len(st.calls) != 1 {
		return
	}
	c := st.calls[0]
	verifrt.Assert("c18.client-method", c.op == op)
	verifrt.Assert("c18.same-name", verifrt.EqStr(c.name, name))
	verifrt.Assert("c18.same-value", c.i == v)
	verifrt.Assert("c18.sample-rate", math.Float32bits(c.rate) == math.Float32bits(want))
	verifrt.Assert("c18.tags-ignored", c.ntags == 0)
}

// VerifC18Scalars: counter, gauge, timer.
func VerifC18Scalars() {
	st, r, want, _, name, tags := c18Setup()
	switch verifrt.Choose("op", 3) {
	case 0:
		v := verifrt.Int64("v")
		r.ReportCounter(name, tags, v)
		c18One(st, "Inc", name, v, want)
		verifrt.Emit("counter", v)
	case 1:
		f := verifrt.Float64("f")
		r.ReportGauge(name, tags, f)
		c18One(st, "Gauge", name, int64(f), want)
	case 2:
		d := verifrt.Int64("d")
		r.ReportTimer(name, tags, time.Duration(d))
		c18One(st, "TimingDuration", name, d, want)
		verifrt.Emit("timer", d)
	}
	caps := r.Capabilities()
	verifrt.Assert("c18.reporting", caps.Reporting())
	verifrt.Assert("c18.no-tagging", !caps.Tagging())
	n := len(st.calls)
	r.Flush()
	verifrt.Assert("c18.flush-makes-no-call", len(st.calls) == n)
	verifrt.Reach("c18-scalars")
}

// VerifC18ValueBuckets: two bucket reports of one value histogram.
func VerifC18ValueBuckets() {
	st, r, want, prec, name, tags := c18Setup()
	lo1, hi1 := verifrt.Float64("lo1"), verifrt.Float64("hi1")
	lo2, hi2 := verifrt.Float64("lo2"), verifrt.Float64("hi2")
	verifrt.Assume(verifrt.Not(verifrt.Or(verifrt.Or(verifrt.IsNaN(lo1), verifrt.IsNaN(hi1)), verifrt.Or(verifrt.IsNaN(lo2), verifrt.IsNaN(hi2)))))
	s1, s2 := verifrt.Int64("s1"), verifrt.Int64("s2")
	r.ReportHistogramValueSamples(name, tags, nil, lo1, hi1, s1)
	want1 := name + "." + refValueBound(lo1, prec) + "-" + refValueBound(hi1, prec)
	c18One(st, "Inc", want1, s1, want)
	st.calls = nil
	r.ReportHistogramValueSamples(name, tags, nil, lo2, hi2, s2)
	want2 := name + "." + refValueBound(lo2, prec) + "-" + refValueBound(hi2, prec)
	c18One(st, "Inc", want2, s2, want)
	if len(st.calls) == 1 {
		same := verifrt.And(verifrt.EqStr(refValueBound(lo1, prec), refValueBound(lo2, prec)),
			verifrt.EqStr(refValueBound(hi1, prec), refValueBound(hi2, prec)))
		verifrt.Assert("c18.distinct-bounds-distinct-names", verifrt.Or(same, verifrt.Not(verifrt.EqStr(st.calls[0].name, want1))))
	}
	verifrt.Emit("samples", s1)
	verifrt.Reach("c18-value-buckets")
}

// VerifC18DurationBuckets: two bucket reports of one duration histogram.
func VerifC18DurationBuckets() {
	st, r, want, _, name, tags := c18Setup()
	lo1, hi1 := time.Duration(verifrt.Int64("lo1")), time.Duration(verifrt.Int64("hi1"))
	lo2, hi2 := time.Duration(verifrt.Int64("lo2")), time.Duration(verifrt.Int64("hi2"))
	s1, s2 := verifrt.Int64("s1"), verifrt.Int64("s2")
	r.ReportHistogramDurationSamples(name, tags, nil, lo1, hi1, s1)
	want1 := name + "." + refDurationBound(lo1) + "-" + refDurationBound(hi1)
	c18One(st, "Inc", want1, s1, want)
	st.calls = nil
	r.ReportHistogramDurationSamples(name, tags, nil, lo2, hi2, s2)
	want2 := name + "." + refDurationBound(lo2) + "-" + refDurationBound(hi2)
	c18One(st, "Inc", want2, s2, want)
	if len(st.calls) == 1 {
		same := verifrt.And(verifrt.EqStr(refDurationBound(lo1), refDurationBound(lo2)),
			verifrt.EqStr(refDurationBound(hi1), refDurationBound(hi2)))
		verifrt.Assert("c18.distinct-bounds-distinct-names", verifrt.Or(same, verifrt.Not(verifrt.EqStr(st.calls[0].name, want1))))
	}
	verifrt.Emit("samples", s2)
	verifrt.Reach("c18-duration-buckets")
}

// VerifC18Concurrent: one reporter shared by two goroutines reporting buckets of two
// histograms (concrete bounds, so the real number formatting is evaluated): each call must
// still produce exactly its own stat name (every schedule with at most 2 preemptions).
func VerifC18Concurrent() {
	st := &vLockedStatter{}
	r := NewReporter(st, Options{})
	s1, s2 := verifrt.Int64("s"), verifrt.Int64("s")
	var wg sync.WaitGroup
	verifrt.Explore(2)
	wg.Add(2)
	go func() {
		defer wg.Done()
		r.ReportHistogramValueSamples("alpha", nil, nil, 1.5, 2.5, s1)
	}()
	go func() {
		defer wg.Done()
		r.ReportHistogramDurationSamples("beta", nil, nil, time.Second, 90*time.Minute, s2)
	}()
	wg.Wait()
	verifrt.StopExplore()
	verifrt.Assert("c18.concurrent.two-calls", len(st.calls) == 2)
	okA, okB := false, false
	for _, c := range st.calls {
		if c.name == "alpha.1.500000-2.500000" && c.op == "Inc" {
			okA = true
			verifrt.Assert("c18.concurrent.value", c.i == s1)
		}
		if c.name == "beta.1s-1h30m0s" && c.op == "Inc" {
			okB = true
			verifrt.Assert("c18.concurrent.value", c.i == s2)
		}
	}
	verifrt.Assert("c18.concurrent.each-call-under-its-own-stat-name", okA && okB)
	verifrt.Reach("c18-concurrent")
}

// vLockedStatter: a client that is safe for concurrent use, as the real ones are.
type vLockedStatter struct {
	mu sync.Mutex
	vStatter
}

func (s *vLockedStatter) Inc(n string, v int64, r float32, t ...cactus.Tag) error {
	s.mu.Lock()
	defer s.mu.Unlock()
	return s.vStatter.Inc(n, v, r, t...)
}

// VerifC18IntegralBounds: bounds that are whole numbers.  The engine splits the rendering of a
// float64 on "integral and within int64" (then the text is the integer's digits, a point and zeros),
// so a shortcut for whole numbers is compared with the general formatting on both sides of 2^63.
func VerifC18IntegralBounds() {
	verifrt.RenderIntegralSplit()
	st := &vStatter{}
	r := NewReporter(st, Options{})
	hi := verifrt.Float64("hi")
	verifrt.Assume(verifrt.Not(verifrt.IsNaN(hi)))
	s := verifrt.Int64("s")
	r.ReportHistogramValueSamples("n", nil, nil, 0.5, hi, s)
	c18One(st, "Inc", "n."+refValueBound(0.5, 6)+"-"+refValueBound(hi, 6), s, 1)
	verifrt.Reach("c18-integral")
}
