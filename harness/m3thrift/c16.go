//go:build verif

package v2

import (
	"math"

	"github.com/uber-go/tally/v4/internal/verifrt"
	customtransport "github.com/uber-go/tally/v4/m3/customtransports"
	"github.com/uber-go/tally/v4/thirdparty/github.com/apache/thrift/lib/go/thrift"
)

func vFactory(binary bool) thrift.TProtocolFactory {
	if binary {
		return thrift.NewTBinaryProtocolFactoryDefault()
	}
	return thrift.NewTCompactProtocolFactory()
}

type vWriter interface {
	Write(thrift.TProtocol) error
}

// vEncode writes x through proto (bound to buf) and returns the bytes produced.
func vEncode(buf *thrift.TMemoryBuffer, proto thrift.TProtocol, x vWriter) []byte {
	buf.Reset()
	err := x.Write(proto)
	verifrt.Assert("c16.encode-no-error", err == nil)
	return append([]byte{}, buf.Bytes()...)
}

func vCalc(calc *customtransport.TCalcTransport, proto thrift.TProtocol, x vWriter) int32 {
	calc.ResetCount()
	err := x.Write(proto)
	verifrt.Assert("c16.calc-no-error", err == nil)
	n := calc.GetCount()
	calc.ResetCount()
	return n
}

func eqTags(a, b []MetricTag) bool {
	if len(a) != len(b) {
		return false
	}
	r := true
	for i := range a {
		r = verifrt.And(r, verifrt.And(verifrt.EqStr(a[i].Name, b[i].Name), verifrt.EqStr(a[i].Value, b[i].Value)))
	}
	return r
}

func eqMetric(a, b *Metric) bool {
	r := verifrt.EqStr(a.Name, b.Name)
	r = verifrt.And(r, a.Value.MetricType == b.Value.MetricType)
	r = verifrt.And(r, a.Value.Count == b.Value.Count)
	r = verifrt.And(r, math.Float64bits(a.Value.Gauge) == math.Float64bits(b.Value.Gauge))
	r = verifrt.And(r, a.Value.Timer == b.Value.Timer)
	r = verifrt.And(r, a.Timestamp == b.Timestamp)
	return verifrt.And(r, eqTags(a.Tags, b.Tags))
}

// symbolic aspects, one family member at a time (their union covers every field)
func vMetric(aspect int, strLen int) Metric {
	m := Metric{Name: "n", Timestamp: 1}
	m.Value.MetricType = MetricType_COUNTER
	switch aspect {
	case 0: // count + timestamp
		m.Value.Count = verifrt.Int64("count")
		m.Timestamp = verifrt.Int64("timestamp")
	case 1: // gauge + timer
		m.Value.MetricType = MetricType_GAUGE
		m.Value.Gauge = verifrt.Float64("gauge")
		m.Value.Timer = verifrt.Int64("timer")
	case 2: // kind + name bytes
		m.Value.MetricType = MetricType(verifrt.Choose("kind", 4))
		m.Name = verifrt.String("name", strLen)
	case 3: // tags: nil / empty / 1 / 2 with symbolic bytes
		switch verifrt.Choose("ntags", 4) {
		case 0:
			m.Tags = nil
		case 1:
			m.Tags = []MetricTag{}
		case 2:
			m.Tags = []MetricTag{{Name: verifrt.String("tk", strLen), Value: verifrt.String("tv", strLen)}}
		case 3:
			m.Tags = []MetricTag{{Name: verifrt.String("tk", strLen), Value: ""}, {Name: "", Value: verifrt.String("tv", strLen)}}
		}
	}
	return m
}

func c16Metric(binary bool, aspect, strLen int) {
	f := vFactory(binary)
	buf := thrift.NewTMemoryBuffer()
	proto := f.GetProtocol(buf)
	calc := &customtransport.TCalcTransport{}
	cproto := f.GetProtocol(calc)

	m := vMetric(aspect, strLen)
	enc := vEncode(buf, proto, &m)
	verifrt.Emit("len", int64(len(enc)))
	// calculator == encoder for the same structure
	verifrt.Assert("c16.calc-equals-encoded-length", int(vCalc(calc, cproto, &m)) == len(enc))
	// round trip
	rbuf := thrift.NewTMemoryBuffer()
	rbuf.Write(enc)
	var back Metric
	err := back.Read(f.GetProtocol(rbuf))
	verifrt.Assert("c16.decode-no-error", err == nil)
	verifrt.Assert("c16.roundtrip-equal", eqMetric(&m, &back))
	verifrt.Assert("c16.decode-consumes-everything", rbuf.Len() == 0)
	// the size with maximal placeholder values bounds the size with any values
	mx := m
	mx.Timestamp = math.MaxInt64
	mx.Value.Count, mx.Value.Timer, mx.Value.Gauge = 0, 0, 0
	switch m.Value.MetricType {
	case MetricType_COUNTER:
		mx.Value.Count = math.MaxInt64
	case MetricType_GAUGE:
		mx.Value.Gauge = math.MaxFloat64
	case MetricType_TIMER:
		mx.Value.Timer = math.MaxInt64
	}
	// as the reporter reports it: only the field of its own kind carries a value
	act := m
	switch m.Value.MetricType {
	case MetricType_COUNTER:
		act.Value.Timer, act.Value.Gauge = 0, 0
	case MetricType_GAUGE:
		act.Value.Count, act.Value.Timer = 0, 0
	case MetricType_TIMER:
		act.Value.Count, act.Value.Gauge = 0, 0
	}
	actEnc := vEncode(buf, proto, &act)
	verifrt.Assert("c16.max-placeholder-size-is-upper-bound", int(vCalc(calc, cproto, &mx)) >= len(actEnc))
	// encoding through the same, already used protocol object == encoding through a fresh one
	other := Metric{Name: "other", Timestamp: verifrt.Int64("other.ts"), Tags: []MetricTag{{Name: "a", Value: "b"}}}
	vEncode(buf, proto, &other)
	again := vEncode(buf, proto, &m)
	verifrt.Assert("c16.reused-protocol-same-bytes", verifrt.EqBytes(again, enc))
	verifrt.Assert("c16.reused-calculator-same-count", int(vCalc(calc, cproto, &m)) == len(enc))
	verifrt.Reach("c16.metric.end")
}

func VerifC16CompactValues() { c16Metric(false, verifrt.Choose("aspect", 2), 0) }
func VerifC16BinaryValues()  { c16Metric(true, verifrt.Choose("aspect", 2), 0) }
func VerifC16CompactStrings() {
	c16Metric(false, 2+verifrt.Choose("aspect", 2), verifrt.Choose("strlen", 3))
}
func VerifC16BinaryStrings() {
	c16Metric(true, 2+verifrt.Choose("aspect", 2), verifrt.Choose("strlen", 3))
}
func VerifC16CompactLongStrings() {
	c16Metric(false, 2+verifrt.Choose("aspect", 2), 126+verifrt.Choose("strlen", 4))
}

type failingTransport struct {
	*thrift.TMemoryBuffer
	failAt int
	writes int
}

func (t *failingTransport) Write(b []byte) (int, error) {
	t.writes++
	if t.writes == t.failAt {
		return 0, thrift.NewTTransportException(thrift.UNKNOWN_TRANSPORT_EXCEPTION, "injected")
	}
	return t.TMemoryBuffer.Write(b)
}
func (t *failingTransport) WriteByte(c byte) error {
	_, err := t.Write([]byte{c})
	return err
}
func (t *failingTransport) WriteString(s string) (int, error) { return t.Write([]byte(s)) }

// VerifC16Batch: MetricBatch round trip (0..2 metrics, common tags nil/empty/1),
// and an encode that is aborted by a transport error followed by a correct one.
func VerifC16Batch() {
	binary := verifrt.Choose("binary", 2) == 1
	f := vFactory(binary)
	var b MetricBatch
	n := verifrt.Choose("metrics", 3)
	tagged := 0
	if n == 2 {
		tagged = verifrt.Choose("tagged-metric", 2) // a tagged metric before or after an untagged one
	}
	b.Metrics = make([]Metric, 0, n)
	for i := 0; i < n; i++ {
		m := Metric{Name: verifrt.String("name", 1), Timestamp: int64(verifrt.Int32("ts"))}
		m.Value.MetricType = MetricType_TIMER
		m.Value.Timer = int64(verifrt.Int16("timer"))
		if i == tagged {
			m.Tags = []MetricTag{{Name: "k", Value: verifrt.String("tv", 1)}}
		}
		b.Metrics = append(b.Metrics, m)
	}
	switch verifrt.Choose("common", 3) {
	case 1:
		b.CommonTags = []MetricTag{}
	case 2:
		b.CommonTags = []MetricTag{{Name: "service", Value: verifrt.String("svc", 1)}}
	}
	buf := thrift.NewTMemoryBuffer()
	proto := f.GetProtocol(buf)
	enc := vEncode(buf, proto, &b)
	calc := &customtransport.TCalcTransport{}
	verifrt.Assert("c16.batch.calc-equals-encoded-length", int(vCalc(calc, f.GetProtocol(calc), &b)) == len(enc))
	rbuf := thrift.NewTMemoryBuffer()
	rbuf.Write(enc)
	var back MetricBatch
	err := back.Read(f.GetProtocol(rbuf))
	verifrt.Assert("c16.batch.decode-no-error", err == nil)
	verifrt.Assert("c16.batch.metric-count", len(back.Metrics) == len(b.Metrics))
	if len(back.Metrics) == len(b.Metrics) {
		for i := range b.Metrics {
			verifrt.Assert("c16.batch.roundtrip-metric", eqMetric(&b.Metrics[i], &back.Metrics[i]))
		}
	}
	verifrt.Assert("c16.batch.roundtrip-common-tags", eqTags(b.CommonTags, back.CommonTags))
	// aborted encode, then a complete one through the same protocol object
	ft := &failingTransport{TMemoryBuffer: thrift.NewTMemoryBuffer(), failAt: 1 + verifrt.Choose("fail-at", 6)}
	fproto := f.GetProtocol(ft)
	_ = b.Write(fproto)
	ft.failAt = 0
	ft.TMemoryBuffer.Reset()
	err = b.Write(fproto)
	verifrt.Assert("c16.batch.encode-after-abort-no-error", err == nil)
	verifrt.Assert("c16.batch.encode-after-abort-same-bytes", verifrt.EqBytes(ft.TMemoryBuffer.Bytes(), enc))
	verifrt.Reach("c16.batch.end")
}

// VerifC16AbortedEncodes: 1..4 encodes in a row are abandoned after a transport error at the
// same write (any of the first 12 writes, i.e. at any nesting depth of the batch), then a
// complete encode goes through the same protocol object: it must produce the bytes a fresh
// protocol object produces, and they must decode.  Whatever an abandoned message leaves behind
// in the protocol object must not add up.
func VerifC16AbortedEncodes() {
	binary := verifrt.Choose("binary", 2) == 1
	f := vFactory(binary)
	var b MetricBatch
	m := Metric{Name: verifrt.String("name", 1), Timestamp: int64(verifrt.Int32("ts"))}
	m.Value.MetricType = MetricType_TIMER
	m.Value.Timer = int64(verifrt.Int16("timer"))
	m.Tags = []MetricTag{{Name: "k", Value: verifrt.String("tv", 1)}}
	b.Metrics = []Metric{m}
	b.CommonTags = []MetricTag{{Name: "service", Value: verifrt.String("svc", 1)}}
	buf := thrift.NewTMemoryBuffer()
	enc := vEncode(buf, f.GetProtocol(buf), &b)
	failAt := 1 + verifrt.Choose("fail-at", 12)
	ft := &failingTransport{TMemoryBuffer: thrift.NewTMemoryBuffer()}
	fproto := f.GetProtocol(ft)
	aborts := 1 + verifrt.Choose("aborted-encodes", 4)
	for i := 0; i < aborts; i++ {
		ft.writes, ft.failAt = 0, failAt
		ft.TMemoryBuffer.Reset()
		_ = b.Write(fproto)
	}
	ft.failAt = 0
	ft.TMemoryBuffer.Reset()
	err := b.Write(fproto)
	verifrt.Assert("c16.aborted.encode-after-aborts-no-error", err == nil)
	verifrt.Assert("c16.aborted.encode-after-aborts-same-bytes", verifrt.EqBytes(ft.TMemoryBuffer.Bytes(), enc))
	var back MetricBatch
	err = back.Read(f.GetProtocol(ft.TMemoryBuffer))
	verifrt.Assert("c16.aborted.decodes", err == nil && len(back.Metrics) == 1)
	if err == nil && len(back.Metrics) == 1 {
		verifrt.Assert("c16.aborted.roundtrip", eqMetric(&b.Metrics[0], &back.Metrics[0]))
	}
	verifrt.Reach("c16.aborted.end")
}

// VerifC16StringLengths: encoded length of a metric whose name (resp. tag value) has a
// symbolic length 0..300: the encoder's output (abstract buffer) and the calculator must both
// equal the reference size = framing of the empty string + length prefix growth + the bytes.
func VerifC16StringLengths() {
	verifrt.AbstractBuffers()
	binary := verifrt.Choose("binary", 2) == 1
	f := vFactory(binary)
	where := verifrt.Choose("where", 2)
	mk := func(s string) Metric {
		m := Metric{Name: "n", Timestamp: 1}
		m.Value.MetricType = MetricType_COUNTER
		if where == 0 {
			m.Name = s
		} else {
			m.Tags = []MetricTag{{Name: "k", Value: s}}
		}
		return m
	}
	size := func(m *Metric) (int, int32) {
		buf := thrift.NewTMemoryBuffer()
		err := m.Write(f.GetProtocol(buf))
		verifrt.Assert("c16.len.encode-no-error", err == nil)
		calc := &customtransport.TCalcTransport{}
		err = m.Write(f.GetProtocol(calc))
		verifrt.Assert("c16.len.calc-no-error", err == nil)
		return buf.Len(), calc.GetCount()
	}
	empty := mk("")
	base, _ := size(&empty)
	s := verifrt.OpaqueString("s", 0, 300)
	m := mk(s)
	got, counted := size(&m)
	want := base + len(s)
	if !binary && len(s) >= 128 {
		want++ // the varint length prefix takes a second byte
	}
	verifrt.Assert("c16.len.encoded-length-is-prefix-plus-every-byte", got == want)
	verifrt.Assert("c16.len.calculator-agrees", int(counted) == want)
	verifrt.Reach("c16.len.end")
}

// VerifC16CompactBoundaryStrings: round trip at the lengths around the protocol's internal
// 64-byte scratch buffer.
func VerifC16CompactBoundaryStrings() {
	c16Metric(false, 2+verifrt.Choose("aspect", 2), 63+verifrt.Choose("strlen", 3))
}

// VerifC16ListSizes: round trip of batches whose metric list / tag list has a length around the
// compact protocol's inline-size limit (14, 15, 16 elements), both protocols.
func VerifC16ListSizes() {
	binary := verifrt.Choose("binary", 2) == 1
	f := vFactory(binary)
	n := 14 + verifrt.Choose("n", 3)
	var b MetricBatch
	v := verifrt.Int64("value")
	if verifrt.Choose("which-list", 2) == 0 {
		for i := 0; i < n; i++ {
			m := Metric{Name: string(rune('a' + i)), Timestamp: 1}
			m.Value.MetricType = MetricType_COUNTER
			m.Value.Count = v
			b.Metrics = append(b.Metrics, m)
		}
	} else {
		m := Metric{Name: "m", Timestamp: 1}
		m.Value.MetricType = MetricType_COUNTER
		m.Value.Count = v
		for i := 0; i < n; i++ {
			m.Tags = append(m.Tags, MetricTag{Name: string(rune('a' + i)), Value: "v"})
			b.CommonTags = append(b.CommonTags, MetricTag{Name: string(rune('A' + i)), Value: "w"})
		}
		b.Metrics = []Metric{m}
	}
	buf := thrift.NewTMemoryBuffer()
	enc := vEncode(buf, f.GetProtocol(buf), &b)
	calc := &customtransport.TCalcTransport{}
	verifrt.Assert("c16.lists.calc-equals-encoded-length", int(vCalc(calc, f.GetProtocol(calc), &b)) == len(enc))
	rbuf := thrift.NewTMemoryBuffer()
	rbuf.Write(enc)
	var back MetricBatch
	err := back.Read(f.GetProtocol(rbuf))
	verifrt.Assert("c16.lists.decode-no-error", err == nil)
	verifrt.Assert("c16.lists.decode-consumes-everything", rbuf.Len() == 0)
	verifrt.Assert("c16.lists.metric-count", len(back.Metrics) == len(b.Metrics))
	if len(back.Metrics) == len(b.Metrics) {
		for i := range b.Metrics {
			verifrt.Assert("c16.lists.roundtrip-metric", eqMetric(&b.Metrics[i], &back.Metrics[i]))
		}
	}
	verifrt.Assert("c16.lists.roundtrip-common-tags", eqTags(b.CommonTags, back.CommonTags))
	verifrt.Reach("c16.lists.end")
}

// VerifC16LargeBatches: the list lengths at which a length prefix or a size class changes
// (127/128/129: varint; 255/256/257: one byte) and the largest batch the property speaks of
// (500), for both protocols: count and every element survive the round trip, the calculator
// agrees with the encoder.  Values are one symbolic int64 shared by all metrics.
func VerifC16LargeBatches() {
	binary := verifrt.Choose("binary", 2) == 1
	f := vFactory(binary)
	n := []int{127, 128, 129, 255, 256, 257, 500}[verifrt.Choose("n", 7)]
	var b MetricBatch
	v := verifrt.Int64("value")
	if !binary {
		verifrt.Assume(verifrt.And(v >= 0, v < 64)) // one varint size class; the others are decided by the value harnesses
	}
	for i := 0; i < n; i++ {
		m := Metric{Name: "m", Timestamp: int64(i)}
		m.Value.MetricType = MetricType_COUNTER
		m.Value.Count = v
		b.Metrics = append(b.Metrics, m)
	}
	buf := thrift.NewTMemoryBuffer()
	enc := vEncode(buf, f.GetProtocol(buf), &b)
	calc := &customtransport.TCalcTransport{}
	verifrt.Assert("c16.large.calc-equals-encoded-length", int(vCalc(calc, f.GetProtocol(calc), &b)) == len(enc))
	rbuf := thrift.NewTMemoryBuffer()
	rbuf.Write(enc)
	var back MetricBatch
	err := back.Read(f.GetProtocol(rbuf))
	verifrt.Assert("c16.large.decode-no-error", err == nil)
	verifrt.Assert("c16.large.decode-consumes-everything", rbuf.Len() == 0)
	verifrt.Assert("c16.large.metric-count", len(back.Metrics) == n)
	if len(back.Metrics) == n {
		ok := true
		for i := range b.Metrics {
			ok = verifrt.And(ok, verifrt.And(back.Metrics[i].Timestamp == int64(i), back.Metrics[i].Value.Count == v))
		}
		verifrt.Assert("c16.large.every-element-intact", ok)
	}
	verifrt.Reach("c16.large.end")
}
