//go:build verif

package prometheus

import (
	"errors"
	"sync"
	"time"

	prom "github.com/prometheus/client_golang/prometheus"
	dto "github.com/prometheus/client_model/go"
	tally "github.com/uber-go/tally/v4"
	"github.com/uber-go/tally/v4/internal/verifrt"
)

// ---- read-back helpers: natively they read the real prometheus metric; under the engine
// they are intercepted and read the model of the client (engine/prom.go) --------------

func vWrite(m interface{}) *dto.Metric {
	var out dto.Metric
	if err := m.(prom.Metric).Write(&out); err != nil {
		panic(err)
	}
	return &out
}

// vMetricValue: current value of a counter or gauge.
func vMetricValue(m interface{}) float64 {
	o := vWrite(m)
	if o.Counter != nil {
		return o.Counter.GetValue()
	}
	return o.Gauge.GetValue()
}

// vObsCount: number of observations of a histogram or summary.
func vObsCount(m interface{}) uint64 {
	o := vWrite(m)
	if o.Histogram != nil {
		return o.Histogram.GetSampleCount()
	}
	return o.Summary.GetSampleCount()
}

// vObsSum: sum of the observations.
func vObsSum(m interface{}) float64 {
	o := vWrite(m)
	if o.Histogram != nil {
		return o.Histogram.GetSampleSum()
	}
	return o.Summary.GetSampleSum()
}

// vObsCumulative: cumulative count at an upper bound that is one of the histogram's buckets.
func vObsCumulative(m interface{}, bound float64) uint64 {
	o := vWrite(m)
	for _, b := range o.Histogram.Bucket {
		if b.GetUpperBound() == bound {
			return b.GetCumulativeCount()
		}
	}
	panic("no such bucket")
}

// vZero is the value a fresh prometheus metric starts from (a variable so that the
// compiler keeps the addition the client performs).
var vZero float64

// ---- registerer supplied by the harness: fails when told to --------------------------

type vRegisterer struct {
	real  *prom.Registry
	fail  func() bool
	calls int
}

var errRejected = errors.New("registration rejected")

func (r *vRegisterer) Register(c prom.Collector) error {
	r.calls++
	if r.fail != nil && r.fail() {
		return errRejected
	}
	return r.real.Register(c)
}
func (r *vRegisterer) MustRegister(cs ...prom.Collector) {
	for _, c := range cs {
		if err := r.Register(c); err != nil {
			panic(err)
		}
	}
}
func (r *vRegisterer) Unregister(c prom.Collector) bool { return r.real.Unregister(c) }

// c17Conflicts: a sequence of first uses that reuse names across kinds and tag-key sets,
// with registrations failing at the explorer's discretion and a non-panicking error
// callback: the caller always gets a usable metric, every error reaches the callback.
func c17Conflicts(n int, timerType TimerType) {
	var cbErrs int
	reg := &vRegisterer{real: prom.NewRegistry()}
	rejected := 0
	reg.fail = func() bool {
		if verifrt.Choose("register-fails", 2) == 1 {
			rejected++
			return true
		}
		return false
	}
	r := NewReporter(Options{
		Registerer:       reg,
		DefaultTimerType: timerType,
		OnRegisterError:  func(err error) { cbErrs++ },
	})
	names := []string{"alpha", "beta"}
	for i := 0; i < n; i++ {
		name := names[verifrt.Choose("name", 2)]
		var tags map[string]string
		if verifrt.Choose("tagged", 2) == 1 {
			tags = map[string]string{"k": "v"}
		}
		before := cbErrs
		switch verifrt.Choose("kind", 4) {
		case 0:
			r.AllocateCounter(name, tags).ReportCount(1)
		case 1:
			r.AllocateGauge(name, tags).ReportGauge(2)
		case 2:
			r.AllocateTimer(name, tags).ReportTimer(time.Second)
		case 3:
			h := r.AllocateHistogram(name, tags, tally.ValueBuckets{1, 2})
			h.ValueBucket(0, 1).ReportSamples(1)
			h.DurationBucket(0, time.Second).ReportSamples(1)
		}
		verifrt.Assert("c17.at-most-one-callback-per-allocation", cbErrs <= before+1)
	}
	verifrt.Assert("c17.every-rejection-reaches-the-callback", cbErrs >= rejected)
	verifrt.Reach("c17-conflicts")
}

func VerifC17ConflictsSummary()   { c17Conflicts(2, SummaryTimerType) }
func VerifC17ConflictsHistogram() { c17Conflicts(2, HistogramTimerType) }
func VerifC17Conflicts3()         { c17Conflicts(3, HistogramTimerType) }

// c17Values: a history recorded through a real tally scope over the prometheus reporter,
// then a report pass; the client must show the recorded values.
func VerifC17Values() {
	reg := &vRegisterer{real: prom.NewRegistry()}
	rep := NewReporter(Options{Registerer: reg, OnRegisterError: func(err error) {
		verifrt.Assert("c17.values.no-registration-error", false)
	}}).(*reporter)
	scope, closer := tally.NewRootScope(tally.ScopeOptions{CachedReporter: rep, Separator: "_", OmitCardinalityMetrics: true}, 0)
	tags := map[string]string{"k": "v"}
	s2 := scope.Tagged(map[string]string{"k": "w"})

	a, b := verifrt.Int64("inc"), verifrt.Int64("inc")
	verifrt.Assume(verifrt.And(verifrt.And(a > 0, a < 1<<40), verifrt.And(b > 0, b < 1<<40)))
	c1 := scope.Tagged(tags).Counter("reqs")
	c1.Inc(a)
	c1.Inc(b)
	c2 := s2.Counter("reqs")
	c2.Inc(b)

	g1, g2 := verifrt.Float64("gauge"), verifrt.Float64("gauge")
	verifrt.Assume(verifrt.Not(verifrt.Or(verifrt.IsNaN(g1), verifrt.IsNaN(g2))))
	g := scope.Gauge("temp")
	g.Update(g1)
	g.Update(g2)

	d := verifrt.Int64("dur")
	tm := scope.Timer("lat")
	tm.Record(time.Duration(d))
	tm.Record(time.Duration(d))

	closer.Close() // final report pass

	pc1 := rep.counters[canonicalMetricID("reqs", []string{"k"})].With(prom.Labels{"k": "v"})
	pc2 := rep.counters[canonicalMetricID("reqs", []string{"k"})].With(prom.Labels{"k": "w"})
	// both increments are delivered by the one closing pass as a single delta
	verifrt.Assert("c17.values.counter-is-sum-of-increments", vMetricValue(pc1) == vZero+float64(a+b))
	verifrt.Assert("c17.values.other-tag-value-is-a-separate-series", vMetricValue(pc2) == vZero+float64(b))
	pg := rep.gauges[canonicalMetricID("temp", nil)].With(nil)
	verifrt.Assert("c17.values.gauge-is-last-update", verifrt.Float64bits(vMetricValue(pg)) == verifrt.Float64bits(g2))
	pt := rep.timers[canonicalMetricID("lat", nil)].summary.With(nil)
	verifrt.Assert("c17.values.timer-count", vObsCount(pt) == 2)
	verifrt.Reach("c17-values")
}

// VerifC17Histogram: tally's bucketing against prometheus's cumulative buckets for a spec of
// strictly increasing finite symbolic bounds and symbolic samples (values and durations).
func VerifC17Histogram() {
	reg := &vRegisterer{real: prom.NewRegistry()}
	rep := NewReporter(Options{Registerer: reg, OnRegisterError: func(err error) {
		verifrt.Assert("c17.hist.no-registration-error", false)
	}}).(*reporter)
	scope, closer := tally.NewRootScope(tally.ScopeOptions{CachedReporter: rep, Separator: "_", OmitCardinalityMetrics: true}, 0)
	b1, b2 := verifrt.Float64("bound"), verifrt.Float64("bound")
	fin := func(f float64) bool { return verifrt.And(f > -1e300, f < 1e300) }
	verifrt.Assume(verifrt.And(verifrt.And(fin(b1), fin(b2)), b1 < b2))
	x, y := verifrt.Float64("sample"), verifrt.Float64("sample")
	verifrt.Assume(verifrt.And(fin(x), fin(y)))
	h := scope.Histogram("sizes", tally.ValueBuckets{b1, b2})
	h.RecordValue(x)
	h.RecordValue(y)
	closer.Close()
	ph := rep.timers[canonicalMetricID("sizes", nil)].histogram.With(nil)
	le := func(s, bound float64) uint64 { return uint64(verifrt.IteInt64(s <= bound, 1, 0)) }
	verifrt.Assert("c17.hist.total-count", vObsCount(ph) == 2)
	verifrt.Assert("c17.hist.cumulative-at-first-bound", vObsCumulative(ph, b1) == le(x, b1)+le(y, b1))
	verifrt.Assert("c17.hist.cumulative-at-second-bound", vObsCumulative(ph, b2) == le(x, b2)+le(y, b2))
	verifrt.Reach("c17-histogram")
}

// VerifC17TwoHistograms: two histograms of one scope tree with different specs - symbolic, so
// the solver is free to pick specs that collide in tally's bucket cache (e.g. {1,8} and {2,4}) -
// one sample each: every histogram's cumulative counts follow its own bounds.
func VerifC17TwoHistograms() {
	reg := &vRegisterer{real: prom.NewRegistry()}
	rep := NewReporter(Options{Registerer: reg, OnRegisterError: func(err error) {
		verifrt.Assert("c17.hist2.no-registration-error", false)
	}}).(*reporter)
	scope, closer := tally.NewRootScope(tally.ScopeOptions{CachedReporter: rep, Separator: "_", OmitCardinalityMetrics: true}, 0)
	fin := func(f float64) bool { return verifrt.And(f > -1e300, f < 1e300) }
	var bs [4]float64
	for i := range bs {
		bs[i] = verifrt.Float64("bound")
		verifrt.Assume(fin(bs[i]))
	}
	verifrt.Assume(verifrt.And(bs[0] < bs[1], bs[2] < bs[3]))
	x, y := verifrt.Float64("sample"), verifrt.Float64("sample")
	verifrt.Assume(verifrt.And(fin(x), fin(y)))
	scope.Histogram("first", tally.ValueBuckets{bs[0], bs[1]}).RecordValue(x)
	scope.SubScope("sub").Histogram("second", tally.ValueBuckets{bs[2], bs[3]}).RecordValue(y)
	closer.Close()
	p1 := rep.timers[canonicalMetricID("first", nil)].histogram.With(nil)
	p2 := rep.timers[canonicalMetricID("sub_second", nil)].histogram.With(nil)
	le := func(s, bound float64) uint64 { return uint64(verifrt.IteInt64(s <= bound, 1, 0)) }
	verifrt.Assert("c17.hist2.first.total-count", vObsCount(p1) == 1)
	verifrt.Assert("c17.hist2.first.cumulative", verifrt.And(vObsCumulative(p1, bs[0]) == le(x, bs[0]), vObsCumulative(p1, bs[1]) == le(x, bs[1])))
	verifrt.Assert("c17.hist2.second.total-count", vObsCount(p2) == 1)
	verifrt.Assert("c17.hist2.second.cumulative", verifrt.And(vObsCumulative(p2, bs[2]) == le(y, bs[2]), vObsCumulative(p2, bs[3]) == le(y, bs[3])))
	verifrt.Reach("c17-two-histograms")
}

// VerifC17DurationHistogram: for durations the sample must be replayed as an observation that
// is bit-identical to the registered bound (in seconds) of the sample's bucket.  (Whether two
// different bounds stay different after the division by 1e9 is floating-point division over
// 64-bit operands, which no available solver decides here: stated as outside the claim.)
func VerifC17DurationHistogram() {
	reg := &vRegisterer{real: prom.NewRegistry()}
	rep := NewReporter(Options{Registerer: reg, OnRegisterError: func(err error) {
		verifrt.Assert("c17.dhist.no-registration-error", false)
	}}).(*reporter)
	scope, closer := tally.NewRootScope(tally.ScopeOptions{CachedReporter: rep, Separator: "_", OmitCardinalityMetrics: true}, 0)
	b1, b2 := verifrt.Int64("bound"), verifrt.Int64("bound")
	verifrt.Assume(verifrt.And(verifrt.And(b1 > -(1<<62), b2 < 1<<62), b1 < b2))
	x := verifrt.Int64("sample")
	spec := tally.DurationBuckets{time.Duration(b1), time.Duration(b2)}
	h := scope.Histogram("lat", spec)
	h.RecordDuration(time.Duration(x))
	closer.Close()
	ph := rep.timers[canonicalMetricID("lat", nil)].histogram.With(nil)
	// reference: the least bound >= the sample, else the open end
	ub := verifrt.IteInt64(x <= b1, b1, verifrt.IteInt64(x <= b2, b2, int64(^uint64(0)>>1)))
	want := vZero + float64(time.Duration(ub))/float64(time.Second)
	verifrt.Assert("c17.dhist.total-count", vObsCount(ph) == 1)
	verifrt.Assert("c17.dhist.observed-the-registered-bound-of-the-samples-bucket",
		verifrt.Float64bits(vObsSum(ph)) == verifrt.Float64bits(want))
	verifrt.Reach("c17-duration-histogram")
}

// VerifC17DurationSeconds: the same statement as VerifC17DurationHistogram on bounds and
// samples within (-4s, 4s), with integer divisions by a constant decided by a case split
// on the quotient (verifrt.SplitConstDivision): any conversion of the replayed bound that
// is not bit-identical to the registered one (for instance whole seconds plus a fraction,
// two roundings instead of one) is then within the solver's reach.
func VerifC17DurationSeconds() {
	verifrt.SplitConstDivision(5)
	reg := &vRegisterer{real: prom.NewRegistry()}
	rep := NewReporter(Options{Registerer: reg, OnRegisterError: func(err error) {
		verifrt.Assert("c17.dsec.no-registration-error", false)
	}}).(*reporter)
	scope, closer := tally.NewRootScope(tally.ScopeOptions{CachedReporter: rep, Separator: "_", OmitCardinalityMetrics: true}, 0)
	b1, b2 := verifrt.Int64("bound"), verifrt.Int64("bound")
	const lim = int64(4 * time.Second)
	verifrt.Assume(verifrt.And(verifrt.And(b1 > -lim, b2 < lim), b1 < b2))
	x := verifrt.Int64("sample")
	verifrt.Assume(verifrt.And(x > -lim, x < lim))
	spec := tally.DurationBuckets{time.Duration(b1), time.Duration(b2)}
	h := scope.Histogram("lat", spec)
	h.RecordDuration(time.Duration(x))
	closer.Close()
	ph := rep.timers[canonicalMetricID("lat", nil)].histogram.With(nil)
	ub := verifrt.IteInt64(x <= b1, b1, verifrt.IteInt64(x <= b2, b2, int64(^uint64(0)>>1)))
	want := vZero + float64(time.Duration(ub))/float64(time.Second)
	verifrt.Assert("c17.dsec.total-count", vObsCount(ph) == 1)
	verifrt.Assert("c17.dsec.observed-the-registered-bound-of-the-samples-bucket",
		verifrt.Float64bits(vObsSum(ph)) == verifrt.Float64bits(want))
	verifrt.Reach("c17-duration-seconds")
}

// VerifC17ConcurrentFirstUse: two goroutines make the first use of one name and tag-key set
// with different tag values; every schedule with at most 2 preemptions.  Neither may see a
// registration error, and both series must carry their own value.
func VerifC17ConcurrentFirstUse() {
	reg := &vRegisterer{real: prom.NewRegistry()}
	errs := 0
	rep := NewReporter(Options{Registerer: reg, OnRegisterError: func(err error) { errs++ }}).(*reporter)
	x, y := verifrt.Int64("inc"), verifrt.Int64("inc")
	verifrt.Assume(verifrt.And(verifrt.And(x > 0, x < 1<<40), verifrt.And(y > 0, y < 1<<40)))
	kind := verifrt.Choose("kind", 3)
	var wg sync.WaitGroup
	use := func(tagValue string, v int64) {
		defer wg.Done()
		tags := map[string]string{"k": tagValue}
		switch kind {
		case 0:
			rep.AllocateCounter("reqs", tags).ReportCount(v)
		case 1:
			rep.AllocateGauge("reqs", tags).ReportGauge(float64(v))
		case 2:
			rep.AllocateHistogram("reqs", tags, tally.ValueBuckets{1}).ValueBucket(0, 1).ReportSamples(1)
		}
	}
	verifrt.Explore(2)
	wg.Add(2)
	go use("a", x)
	go use("b", y)
	wg.Wait()
	verifrt.StopExplore()
	verifrt.Assert("c17.concurrent.no-registration-error-for-a-valid-request", errs == 0)
	id := canonicalMetricID("reqs", []string{"k"})
	switch kind {
	case 0:
		verifrt.Assert("c17.concurrent.registered", rep.counters[id] != nil)
		if rep.counters[id] != nil {
			verifrt.Assert("c17.concurrent.series-a", vMetricValue(rep.counters[id].With(prom.Labels{"k": "a"})) == vZero+float64(x))
			verifrt.Assert("c17.concurrent.series-b", vMetricValue(rep.counters[id].With(prom.Labels{"k": "b"})) == vZero+float64(y))
		}
	case 1:
		verifrt.Assert("c17.concurrent.registered", rep.gauges[id] != nil)
		if rep.gauges[id] != nil {
			verifrt.Assert("c17.concurrent.series-a", vMetricValue(rep.gauges[id].With(prom.Labels{"k": "a"})) == float64(x))
			verifrt.Assert("c17.concurrent.series-b", vMetricValue(rep.gauges[id].With(prom.Labels{"k": "b"})) == float64(y))
		}
	case 2:
		verifrt.Assert("c17.concurrent.registered", rep.timers[id] != nil && rep.timers[id].histogram != nil)
		if rep.timers[id] != nil && rep.timers[id].histogram != nil {
			verifrt.Assert("c17.concurrent.series-a", vObsCount(rep.timers[id].histogram.With(prom.Labels{"k": "a"})) == 1)
			verifrt.Assert("c17.concurrent.series-b", vObsCount(rep.timers[id].histogram.With(prom.Labels{"k": "b"})) == 1)
		}
	}
	verifrt.Reach("c17-concurrent")
}

// vValidNameByte / vValidKeyByte: the bytes Prometheus allows in metric names ([a-zA-Z0-9_:])
// and label names ([a-zA-Z0-9_]) - restricted to a few representatives plus the two that matter
// for key building.
func vValidNameByte(b byte) bool {
	return verifrt.Or(verifrt.Or(verifrt.And(b >= 'a', b <= 'z'), verifrt.And(b >= 'A', b <= 'Z')),
		verifrt.Or(verifrt.Or(b == '_', b == ':'), verifrt.And(b >= '0', b <= '9')))
}
func vValidKeyByte(b byte) bool {
	return verifrt.And(vValidNameByte(b), b != ':')
}

// VerifC17IDInjective: the reporter's by-name cache id is injective on Prometheus-valid names
// and tag-key sets: two first uses with different (name, keys) never share a cache slot.
func VerifC17IDInjective() {
	shapes := [][2]int{{1, 0}, {3, 0}, {1, 1}, {2, 1}, {3, 1}} // (name length, number of 1-byte keys)
	mk := func(tag string) (string, []string) {
		sh := shapes[verifrt.Choose("shape-"+tag, len(shapes))]
		name := verifrt.String("name-"+tag, sh[0])
		for i := 0; i < len(name); i++ {
			verifrt.Assume(vValidNameByte(name[i]))
		}
		var keys []string
		if sh[1] == 1 {
			k := verifrt.String("key-"+tag, 1)
			verifrt.Assume(vValidKeyByte(k[0]))
			keys = []string{k}
		}
		return name, keys
	}
	n1, k1 := mk("a")
	n2, k2 := mk("b")
	same := verifrt.And(verifrt.EqStr(n1, n2), len(k1) == len(k2))
	if len(k1) == 1 && len(k2) == 1 {
		same = verifrt.And(same, verifrt.EqStr(k1[0], k2[0]))
	}
	id1, id2 := canonicalMetricID(n1, k1), canonicalMetricID(n2, k2)
	verifrt.Assert("c17.id.different-name-or-keys-different-cache-slot", verifrt.Or(same, verifrt.Not(verifrt.EqStr(string(id1), string(id2)))))
	verifrt.Reach("c17-id")
}
