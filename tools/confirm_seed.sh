#!/bin/bash
# usage: confirm_seed.sh <seed-out-dir> <scratch-worktree> <pkgdir-of-demo>
# confirms: patch applies, builds, existing tests pass, demo fails with / passes without the change
set -u
export GOFLAGS=-mod=mod GOPROXY=off GOSUMDB=off GOTOOLCHAIN=local
D=$1; W=$2; P=${3:-.}
cd $W && git checkout -q -- . && git clean -fdq
cp $D/demo_test.go $W/$P/zz_demo_test.go
go test -vet=off -count=1 -run 'Demo|ZZ' ./$P > /tmp/cs_without.log 2>&1; WITHOUT=$?
git apply $D/patch.diff || { echo "APPLY-FAILED"; exit 2; }
go build ./... > /tmp/cs_build.log 2>&1; BUILD=$?
go test -vet=off -count=1 -run 'Demo|ZZ' ./$P > /tmp/cs_with.log 2>&1; WITH=$?
rm -f $W/$P/zz_demo_test.go
go test -vet=off -count=1 . ./instrument ./multi ./m3/... ./statsd ./prometheus ./internal/... > /tmp/cs_suite.log 2>&1; SUITE=$?
# the suite has one load-sensitive allocation-count test (TestVerifyCachedTaggedScopesAlloc, flaky on the
# unchanged tree when the machine is busy): a failing run is repeated once
if [ $SUITE -ne 0 ]; then sleep 5; go test -vet=off -count=1 . ./instrument ./multi ./m3/... ./statsd ./prometheus ./internal/... > /tmp/cs_suite.log 2>&1; SUITE=$?; fi
git checkout -q -- . && git clean -fdq
echo "build=$BUILD suite=$SUITE demo_without=$WITHOUT demo_with=$WITH"
if [ $BUILD -eq 0 ] && [ $SUITE -eq 0 ] && [ $WITHOUT -eq 0 ] && [ $WITH -ne 0 ]; then echo CONFIRMED; else echo NOT-CONFIRMED; fi
