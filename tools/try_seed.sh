#!/bin/bash
# usage: try_seed.sh <PROP> <N> [tier]  -- confirms seed /tmp/seed_<PROP>.out/<N> in worktree /tmp/seed_<PROP>,
# stores it as /verif/seeded/<PROP>-<N>/ and runs ./check <PROP> against the mutated worktree (VERIF_REPO), not /repo.
set -u
export GOFLAGS=-mod=mod GOPROXY=off GOSUMDB=off GOTOOLCHAIN=local
P=$1; N=$2; TIER=${3:-quick}; CHK=${4:-$P}
SRC=/tmp/seed_$P.out/$N; W=/tmp/seed_$P; D=/verif/seeded/$P-$N
# round 2 (independent second agent per property): seeds 3 and 4 come from /tmp/seed2_<P>.out/{1,2}
if [ "$N" -ge 3 ]; then SRC=/tmp/seed2_$P.out/$((N-2)); W=/tmp/seed2_$P; fi
# round 3: seeds 5 and 6 from /tmp/seed3_<P>.out/{1,2}
if [ "$N" -ge 5 ]; then SRC=/tmp/seed3_$P.out/$((N-4)); W=/tmp/seed3_$P; fi
# round 4: seeds 7 and 8 from /tmp/seed4_<P>.out/{1,2}
if [ "$N" -ge 7 ]; then SRC=/tmp/seed4_$P.out/$((N-6)); W=/tmp/seed4_$P; fi
# round 5: seeds 9 and 10 from /tmp/seed5_<P>.out/{1,2}
if [ "$N" -ge 9 ]; then SRC=/tmp/seed5_$P.out/$((N-8)); W=/tmp/seed5_$P; fi
# round 6: seeds 11 and 12 from /tmp/seed6_<P>.out/{1,2}
if [ "$N" -ge 11 ]; then SRC=/tmp/seed6_$P.out/$((N-10)); W=/tmp/seed6_$P; fi
[ -d $D ] || { mkdir -p $D; cp $SRC/patch.diff $SRC/demo_test.go $D/; cp $SRC/notes.txt $D/ 2>/dev/null; }
PKG=$(head -3 $D/demo_test.go | grep -oE '"[^"]+"' | head -1 | tr -d '"'); PKG=${PKG:-.}
[ -n "${PKGDIR:-}" ] && PKG=$PKGDIR
echo "== confirm $P-$N (demo in $PKG)"
bash /verif/tools/confirm_seed.sh $D $W $PKG | tee /tmp/try_$P-$N.confirm
cd $W && git checkout -q -- . && git clean -fdq && git apply $D/patch.diff || exit 2
echo "== check $CHK $TIER on mutated worktree"
OUT=/tmp/try_$P-$N.out; rm -rf $OUT; mkdir -p $OUT
( cd /verif && VERIF_REPO=$W VERIF_OUT_DIR=$OUT ./check $CHK --tier $TIER > /tmp/try_$P-$N.log 2>&1; echo "exit=$?" >> /tmp/try_$P-$N.log )
grep -E "^VIOLATION|^violation|^INCONCLUSIVE|exit" /tmp/try_$P-$N.log | cut -c1-400 | head -12
# first-pass record: the outcome of the first time a change met the check (never overwritten)
FP=/verif/seeded/first_pass.tsv
if ! grep -q "^$P-$N	" $FP 2>/dev/null; then
  printf "%s\t%s\t%s\t%s\n" "$P-$N" "$CHK" "$(grep -o 'exit=[0-9]*' /tmp/try_$P-$N.log | tail -1)" "$(git -C /verif log --oneline -1 | cut -d' ' -f1)" >> $FP
fi
cd $W && git checkout -q -- . && git clean -fdq
