#!/usr/bin/env python3
"""Prints the markdown table of seeded changes from seeded/*/meta.json (used for DESIGN.md section 8.4)."""
import json, os, glob, re
V = os.path.dirname(os.path.dirname(os.path.abspath(__file__)))
rows = []
for d in sorted(glob.glob(os.path.join(V, "seeded", "C*-*"))):
    sid = os.path.basename(d)
    mp = os.path.join(d, "meta.json")
    if not os.path.exists(mp):
        rows.append((sid, "(not processed yet)", "", ""))
        continue
    m = json.load(open(mp))
    res = m.get("check_result", "")
    if res.startswith("MISSED"):
        out = "**missed**"
    elif "missed by the first" in res or "first run" in res or "missed before" in res or "harness" in res and "added" in res:
        out = "missed / inconclusive first, caught after strengthening"
    elif "exits 1" in res:
        out = "caught"
    else:
        out = res[:40]
    ch = (m.get("change") or m.get("needs_to_manifest") or "")
    ch = re.sub(r"\s+", " ", ch)[:150].replace("|", "/")
    note = ""
    mm = re.search(r"\((.*)\)", res)
    if mm:
        note = mm.group(1)[:170].replace("|", "/")
    rows.append((sid, ch, out, (m.get("caught_by") or "").replace("|", "/")[:120] + (" — " + note if note else "")))
print("| change | what it does | outcome | caught by / note |")
print("|---|---|---|---|")
for r in rows:
    print("| %s | %s | %s | %s |" % r)
n = len(rows); c = sum(1 for r in rows if r[2].startswith("caught")); s = sum(1 for r in rows if "strengthening" in r[2]); mi = sum(1 for r in rows if "missed**" in r[2])
print("\n%d seeded changes: %d caught by the check as it stood, %d caught after the check was strengthened, %d missed." % (n, c, s, mi))
