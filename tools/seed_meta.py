#!/usr/bin/env python3
"""usage: seed_meta.py <PROP-N> <check_result> <caught_by> [base_commit]  -- writes seeded/<PROP-N>/meta.json from notes.txt"""
import json, os, re, sys
sid, result, caught = sys.argv[1], sys.argv[2], sys.argv[3]
base = sys.argv[4] if len(sys.argv) > 4 else ""
d = os.path.join(os.path.dirname(os.path.dirname(os.path.abspath(__file__))), "seeded", sid)
notes = open(os.path.join(d, "notes.txt")).read() if os.path.exists(os.path.join(d, "notes.txt")) else ""
m = re.search(r"NEEDS:(.*?)(?:\n[A-Z ]+:|\Z)", notes, re.S)
needs = " ".join((m.group(1) if m else notes[:600]).split())
m2 = re.search(r"CHANGE:(.*?)(?:\n[A-Z ]+:|\Z)", notes, re.S)
change = " ".join((m2.group(1) if m2 else "").split())
json.dump({
    "property": sid.split("-")[0],
    "source": "independent sub-agent given only the property text and a scratch worktree",
    "change": change[:900],
    "needs_to_manifest": needs[:900],
    "confirmed": "tools/confirm_seed.sh (via tools/try_seed.sh): patch applies, go build ok, existing suite passes, demo fails with the change and passes without",
    "check_result": result,
    "caught_by": caught,
    "base_commit": base,
}, open(os.path.join(d, "meta.json"), "w"), indent=1)
print("wrote", sid)
