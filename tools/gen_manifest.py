#!/usr/bin/env python3
"""Regenerates MANIFEST.json from checks.json and claims.json (run from /verif)."""
import json, os
V = os.path.dirname(os.path.dirname(os.path.abspath(__file__)))
props = [json.loads(l) for l in open(os.path.join(V, "properties.jsonl"))]
checks = json.load(open(os.path.join(V, "checks.json")))
claims = json.load(open(os.path.join(V, "claims.json")))
man = {
    "version": 1,
    "setup_cmd": "cd /verif/engine && GOFLAGS=-mod=mod GOPROXY=off GOSUMDB=off GOTOOLCHAIN=local go build -o ../bin/gosym .",
    "hooks": {
        "guard": "verif",
        "enable": "harnesses (/verif/harness/<pkg>/*.go) and the verifrt runtime are injected as //go:build verif files (zz_verif_*.go, internal/verifrt) through go/packages Overlay and `go test -overlay`; every load/build the machinery does passes -tags verif; nothing is written to /repo",
        "baseline_off_cmd": "cd /repo && GOFLAGS=-mod=mod go test -vet=off -count=1 -timeout 25m ./...",
        "source_commits": [],
        "add_only": True,
    },
    "engines": [{
        "name": "gosym", "path": "/verif/engine",
        "serves_properties": sorted(p for p in claims["claimed"]),
        "kind_free_text": "own symbolic executor for go/ssa (x/tools v0.29.0) -> SMT-LIB2 (bit-vectors, IEEE floats, uninterpreted hash functions) decided by z3 -in; stateless path exploration by decision vectors; controlled scheduler with preemption bound and happens-before race check for threads; native replay of every counterexample and of sampled path witnesses",
    }],
    "checks": [], "not_applicable": [],
    "notes": "see DESIGN.md. exit 0 = held on everything explored (KNOWN-FINDING lines for recorded defects); exit 1 = VIOLATION reproduced natively; exit 3 = inconclusive (engine/solver could not decide; never a pass)",
}
for p in props:
    pid = p["id"]
    if pid in claims["claimed"] and pid in checks:
        c = claims["claimed"][pid]
        man["checks"].append({
            "property_id": pid,
            "quick_cmd": "./check %s --tier quick" % pid,
            "thorough_cmd": "./check %s --tier thorough" % pid,
            "evidence_file": "/verif/evidence/%s.json" % pid,
            "replay_cmd_template": "./check --replay {path}",
            "engine": "gosym",
            "level_claimed": {"category": "model_checking", "text": c["text"], "design_ref": "DESIGN.md §3 " + pid},
            "level_note": c["note"],
            "technique": c.get("technique", "bounded symbolic execution of the real go/ssa code, assertions decided by z3 (bit-vectors + IEEE floats); counterexamples replayed natively"),
        })
    else:
        man["not_applicable"].append({"property_id": pid, "reason": claims["not_applicable"].get(pid, "check not built yet (see DESIGN.md §3 for the plan)")})
json.dump(man, open(os.path.join(V, "MANIFEST.json"), "w"), indent=1)
print("claimed:", [c["property_id"] for c in man["checks"]])
print("n/a:", [c["property_id"] for c in man["not_applicable"]])
